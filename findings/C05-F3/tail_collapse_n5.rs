// VERIF-REPLAY property=C05 harness=tail_collapse_n5 file=tail.rs
// failed check: ""collapse opcode not in the protocol's vocabulary""
// bounds: every stack of depth 0..5 with every MARK pattern, every protocol 0..5
// The values below are the SAT solver's assignment to every kani::any() of the harness; the test runs
// the same harness body natively (real std/hashbrown/rand, no stubs) via `cargo kani playback`.
#[test]
fn kani_concrete_playback_tail_collapse_n5_1724596128799247015() {
    let concrete_vals: Vec<Vec<u8>> = vec![
        // 1
        vec![1],
        // 5ul
        vec![5, 0, 0, 0, 0, 0, 0, 0],
        // 65284
        vec![4, 255],
    ];
    kani::concrete_playback_run(concrete_vals, tail_collapse_n5);
}
