// VERIF-REPLAY property=C04 harness=emit_ext4 file=emit.rs
// failed check: ""appended bytes are not one well-formed opcode with a complete in-domain argument""
// bounds: EXT4: every code drawn from fuzzer bytes 0..8; memo size m <= 70000; rate in [0,1]; flags symbolic
// The values below are the SAT solver's assignment to every kani::any() of the harness; the test runs
// the same harness body natively (real std/hashbrown/rand, no stubs) via `cargo kani playback`.
#[test]
fn kani_concrete_playback_emit_ext4_1028447394369716716() {
    let concrete_vals: Vec<Vec<u8>> = vec![
        // 2
        vec![2],
        // 1
        vec![1],
        // 1
        vec![1],
        // 0.5
        vec![0, 0, 0, 0, 0, 0, 224, 63],
        // 70000ul
        vec![112, 17, 1, 0, 0, 0, 0, 0],
        // 255
        vec![255],
        // 255
        vec![255],
        // 252
        vec![252],
        // 255
        vec![255],
        // 255
        vec![255],
        // 255
        vec![255],
        // 255
        vec![255],
        // 255
        vec![255],
        // 8ul
        vec![8, 0, 0, 0, 0, 0, 0, 0],
    ];
    kani::concrete_playback_run(concrete_vals, emit_ext4);
}
