// VERIF-REPLAY property=C15 harness=gate_bitflip_int_arb_r1 file=mutg.rs
// failed check: ""rate 1.0 must always mutate""
// bounds: rate 1.0; every value of the argument type; fuzzer bytes: every string of length 0..16 (symbolic content and length)
// The values below are the SAT solver's assignment to every kani::any() of the harness; the test runs
// the same harness body natively (real std/hashbrown/rand, no stubs) via `cargo kani playback`.
#[test]
fn kani_concrete_playback_gate_bitflip_int_arb_r1_304799246272681483() {
    let concrete_vals: Vec<Vec<u8>> = vec![
        // 127
        vec![127],
        // 127
        vec![127],
        // 127
        vec![127],
        // 127
        vec![127],
        // 127
        vec![127],
        // 127
        vec![127],
        // 127
        vec![127],
        // 127
        vec![127],
        // 127
        vec![127],
        // 128
        vec![128],
        // 128
        vec![128],
        // 128
        vec![128],
        // 128
        vec![128],
        // 128
        vec![128],
        // 128
        vec![128],
        // 128
        vec![128],
        // 16ul
        vec![16, 0, 0, 0, 0, 0, 0, 0],
        // 2147483647
        vec![255, 255, 255, 127],
    ];
    kani::concrete_playback_run(concrete_vals, gate_bitflip_int_arb_r1);
}
