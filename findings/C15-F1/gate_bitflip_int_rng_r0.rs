// VERIF-REPLAY property=C15 harness=gate_bitflip_int_rng_r0 file=mutg.rs
// failed check: ""rate 0.0 must never mutate""
// bounds: rate 0.0; every value of the argument type; all PRNG word streams
// The values below are the SAT solver's assignment to every kani::any() of the harness; the test runs
// the same harness body natively (real std/hashbrown/rand, no stubs) via `cargo kani playback`.
#[test]
fn kani_concrete_playback_gate_bitflip_int_rng_r0_17339509069079339896() {
    let concrete_vals: Vec<Vec<u8>> = vec![
        // 0
        vec![0, 0, 0, 0],
        // 0
        vec![0, 0, 0, 0],
        // 0
        vec![0, 0, 0, 0],
        // 0
        vec![0, 0, 0, 0],
        // 0
        vec![0, 0, 0, 0],
        // 0
        vec![0, 0, 0, 0],
        // 0
        vec![0, 0, 0, 0],
        // 0
        vec![0, 0, 0, 0],
        // 0
        vec![0, 0, 0, 0],
        // 0
        vec![0, 0, 0, 0],
        // 0
        vec![0, 0, 0, 0],
        // 0
        vec![0, 0, 0, 0],
        // 0
        vec![0, 0, 0, 0],
        // 0
        vec![0, 0, 0, 0],
        // 0
        vec![0, 0, 0, 0],
        // 0
        vec![0, 0, 0, 0],
        // 0
        vec![0, 0, 0, 0],
    ];
    kani::concrete_playback_run(concrete_vals, gate_bitflip_int_rng_r0);
}
