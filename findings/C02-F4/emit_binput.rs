// VERIF-REPLAY property=C02 harness=emit_binput file=emit.rs
// failed check: ""PUT-family index is not the next free memo index""
// bounds: BINPUT: MEMO-PUT: every memo size m <= 70000; index emitted must be m; memo size m <= 70000; rate in [0,1]; flags symbolic
// The values below are the SAT solver's assignment to every kani::any() of the harness; the test runs
// the same harness body natively (real std/hashbrown/rand, no stubs) via `cargo kani playback`.
#[test]
fn kani_concrete_playback_emit_binput_16235890081385073645() {
    let concrete_vals: Vec<Vec<u8>> = vec![
        // 1
        vec![1],
        // 1
        vec![1],
        // 1
        vec![1],
        // 0.5
        vec![0, 0, 0, 0, 0, 0, 224, 63],
        // 69887ul
        vec![255, 16, 1, 0, 0, 0, 0, 0],
        // 255
        vec![255],
        // 255
        vec![255],
        // 255
        vec![255],
        // 255
        vec![255],
        // 4ul
        vec![4, 0, 0, 0, 0, 0, 0, 0],
    ];
    kani::concrete_playback_run(concrete_vals, emit_binput);
}
