// VERIF-REPLAY property=C01 harness=step_readonly_buffer_d1 file=step.rs
// failed check: ""MARK positions differ from the reference machine""
// bounds: READONLY_BUFFER from every state of depth 1 in which can_emit holds: all 18 StackObject variants per slot, one optional DUP-style alias pair, all flag values, memo size m symbolic (m <= 4); well-formed argument bytes (a_none)
// The values below are the SAT solver's assignment to every kani::any() of the harness; the test runs
// the same harness body natively (real std/hashbrown/rand, no stubs) via `cargo kani playback`.
#[test]
fn kani_concrete_playback_step_readonly_buffer_d1_17385300158986012778() {
    let concrete_vals: Vec<Vec<u8>> = vec![
        // 5
        vec![5],
        // 1
        vec![1],
        // 1
        vec![1],
        // 1
        vec![1],
        // 18446744073709551615ul
        vec![255, 255, 255, 255, 255, 255, 255, 255],
        // 12
        vec![12],
        // 4ul
        vec![4, 0, 0, 0, 0, 0, 0, 0],
        // 16
        vec![16],
        // 16
        vec![16],
        // 16
        vec![16],
        // 16
        vec![16],
    ];
    kani::concrete_playback_run(concrete_vals, step_readonly_buffer_d1);
}
