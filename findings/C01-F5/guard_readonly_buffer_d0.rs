// VERIF-REPLAY property=C01 harness=guard_readonly_buffer_d0 file=guard.rs
// failed check: ""enabled opcode violates the reference stack/memo discipline""
// bounds: READONLY_BUFFER at stack depth 0: all 18 StackObject variants per slot, one optional DUP-style alias pair, all flag values, memo size m symbolic (m <= 300)
// The values below are the SAT solver's assignment to every kani::any() of the harness; the test runs
// the same harness body natively (real std/hashbrown/rand, no stubs) via `cargo kani playback`.
#[test]
fn kani_concrete_playback_guard_readonly_buffer_d0_120108048908624727() {
    let concrete_vals: Vec<Vec<u8>> = vec![
        // 5
        vec![5],
        // 1
        vec![1],
        // 1
        vec![1],
        // 1
        vec![1],
        // 18446744073709551615ul
        vec![255, 255, 255, 255, 255, 255, 255, 255],
        // 300ul
        vec![44, 1, 0, 0, 0, 0, 0, 0],
        // 17
        vec![17],
        // 16
        vec![16],
        // 16
        vec![16],
        // 16
        vec![16],
    ];
    kani::concrete_playback_run(concrete_vals, guard_readonly_buffer_d0);
}
