// VERIF-REPLAY property=C08 harness=head_reuse_t0_noreset file=head.rs
// failed check: ""scratch state (stack, output) is clean when generation starts""
// bounds: every protocol; fuzzer bytes 0..2; used generator = arbitrary junk output byte + one stack item + arbitrary PROTO flag (native replay: a real earlier call on 4 arbitrary bytes); deterministic contracts; second call without reset(); T=0
// The values below are the SAT solver's assignment to every kani::any() of the harness; the test runs
// the same harness body natively (real std/hashbrown/rand, no stubs) via `cargo kani playback`.
#[test]
fn kani_concrete_playback_head_reuse_t0_noreset_9778226749281692311() {
    let concrete_vals: Vec<Vec<u8>> = vec![
        // 5
        vec![5],
        // 255
        vec![255],
        // 255
        vec![255],
        // 1ul
        vec![1, 0, 0, 0, 0, 0, 0, 0],
        // 255
        vec![255],
        // 255
        vec![255],
        // 255
        vec![255],
        // 255
        vec![255],
        // 255
        vec![255],
        // 1
        vec![1],
    ];
    kani::concrete_playback_run(concrete_vals, head_reuse_t0_noreset);
}
