"""Run Kani harnesses in an overlay and classify the per-harness results (DESIGN.md §2.5, §10)."""
import json
import os
import re
import resource
import shutil
import subprocess
import time

VERIF = os.path.dirname(os.path.dirname(os.path.abspath(__file__)))
CACHE = os.path.join(VERIF, ".cache")
TARGET = os.environ.get("VERIF_KANI_TARGET", os.path.join(CACHE, "kani-target"))
PREFIX = "generator::verif_kani::"

OK, FAIL, INCONCLUSIVE = "ok", "fail", "inconclusive"


def _cap_cbmc(sid, mem_gb, stop):
    """Per-process address-space cap for the CBMC children of one cargo-kani run (session `sid`) — only CBMC:
    the Kani driver and rustc need far more virtual memory than they use.  A capped CBMC ends as `Status: ERROR`
    and is reported inconclusive."""
    lim = int(mem_gb * (1 << 30))
    seen = set()
    while not stop.is_set():
        try:
            for d in os.listdir("/proc"):
                if not d.isdigit() or d in seen:
                    continue
                try:
                    with open("/proc/%s/stat" % d) as fh:
                        st = fh.read()
                    comm = st[st.index("(") + 1:st.rindex(")")]
                    fields = st[st.rindex(")") + 2:].split()
                    if comm == "cbmc" and int(fields[3]) == sid:
                        resource.prlimit(int(d), resource.RLIMIT_AS, (lim, lim))
                        seen.add(d)
                except (OSError, ValueError):
                    continue
        except OSError:
            pass
        stop.wait(0.25)


def _run_capped(cmd, cwd, log, mem_gb):
    import threading
    p = subprocess.Popen(cmd, cwd=cwd, env=_env(), stdout=log, stderr=subprocess.STDOUT, start_new_session=True)
    stop = threading.Event()
    t = threading.Thread(target=_cap_cbmc, args=(p.pid, mem_gb, stop), daemon=True)
    t.start()
    try:
        p.wait()
    finally:
        stop.set()
    return p


def _env(mem_gb=None):
    e = dict(os.environ)
    e["CARGO_NET_OFFLINE"] = "true"
    e["CARGO_TERM_COLOR"] = "never"
    e.pop("RUSTUP_TOOLCHAIN", None)
    return e


def _limit(mem_gb):
    def f():
        b = int(mem_gb * (1 << 30))
        resource.setrlimit(resource.RLIMIT_AS, (b, b))
    return f


def classify(res, pdet):
    """-> (verdict, reasons).  FAIL only for a violated assertion/check of the program under test;
    unwinding-bound failures, unsatisfiable covers, time-outs and tool errors are INCONCLUSIVE."""
    status = res.get("status")
    checks = res.get("checks") or []
    failed = [c for c in checks if c.get("status") == "Failure"]
    unwind = [c for c in failed if "unwinding assertion" in (c.get("description") or "")]
    unsupported = [c for c in failed if "unsupported" in (c.get("category") or "")
                   or "is not currently supported by Kani" in (c.get("description") or "")]
    real = [c for c in failed if c not in unwind]
    covers_unsat = [c for c in checks if c.get("category") == "cover" and c.get("status") in ("Unsatisfiable", "Unreachable")]
    undet = [c for c in checks if c.get("status") in ("Undetermined",)]
    reasons = []
    if status == "Success":
        if covers_unsat:
            return INCONCLUSIVE, ["vacuity: cover not satisfiable: %s" % (covers_unsat[0].get("description"))]
        if pdet and (pdet.get("unsatisfiable", 0) or pdet.get("uncovered", 0)):
            return INCONCLUSIVE, ["vacuity: %d cover properties unsatisfiable" % pdet.get("unsatisfiable", 0)]
        return OK, []
    if real and not unwind:
        for c in real[:6]:
            loc = c.get("location") or {}
            reasons.append("%s [%s:%s in %s]" % (c.get("description"), os.path.basename(loc.get("file") or "?"),
                                                  loc.get("line"), c.get("function")))
        return FAIL, reasons
    if unwind:
        return INCONCLUSIVE, ["unwinding bound too small: %s" % unwind[0].get("description")] + \
            ["(also failed: %s)" % c.get("description") for c in real[:3]]
    return INCONCLUSIVE, ["status=%s (time-out, out-of-memory or tool error)" % status]


def run(overlay, names, timeout_s, jobs, mem_gb, log_path, extra_args=()):
    """Run the named harnesses (short names) with one `cargo kani` invocation.
    Returns (results: name -> dict, build_error: str|None, cmd: str)."""
    out_json = os.path.join(overlay, "kani-results.json")
    if os.path.exists(out_json):
        os.remove(out_json)
    cmd = ["cargo", "kani", "--target-dir", TARGET, "-Z", "stubbing", "-Z", "unstable-options",
           "--harness-timeout", "%ds" % timeout_s, "-j", str(jobs), "--output-format", "terse",
           "--export-json", out_json, "--exact"]
    cmd += list(extra_args)
    for n in names:
        cmd += ["--harness", PREFIX + n]
    names = [n.split("::")[-1] for n in names]
    t0 = time.time()
    with open(log_path, "w") as log:
        p = _run_capped(cmd, overlay, log, mem_gb)
    wall = time.time() - t0
    shown = "cargo kani -Z stubbing -Z unstable-options --harness-timeout %ds -j %d --output-format terse --export-json <f> --exact --harness <%d harnesses>" % (timeout_s, jobs, len(names))
    if not os.path.exists(out_json):
        with open(log_path, errors="replace") as fh:
            tail = fh.read()[-4000:]
        return {}, "cargo kani produced no result file (compile error?); log tail:\n" + tail, shown
    with open(out_json) as fh:
        d = json.load(fh)
    # remember goto binary + unwind bound of every harness of this invocation (a later batch overwrites Kani's own
    # metadata file); used by cbmc_assignment
    try:
        outdir = d["project"]["output_dir"]
        acc_path = os.path.join(overlay, "harness-meta.json")
        acc = {}
        if os.path.exists(acc_path):
            with open(acc_path) as fh:
                acc = json.load(fh)
        for mf in os.listdir(outdir):
            if mf.endswith(".kani-metadata.json"):
                with open(os.path.join(outdir, mf)) as fh:
                    for x in json.load(fh).get("proof_harnesses", []):
                        acc[x["pretty_name"].split("::")[-1]] = {"goto_file": x["goto_file"], "unwind": (x.get("attributes") or {}).get("unwind_value")}
        with open(acc_path, "w") as fh:
            json.dump(acc, fh)
    except (OSError, KeyError, ValueError):
        pass
    pdet = {x["harness_id"]: x.get("property_details") for x in d.get("property_details", [])}
    stats = {x["harness_id"]: x.get("cbmc_stats") for x in d.get("cbmc", [])}
    results = {}
    for r in d.get("verification_results", {}).get("results", []):
        hid = r["harness_id"]
        short = hid.split("::")[-1]
        verdict, reasons = classify(r, pdet.get(hid))
        st = stats.get(hid) or {}
        pd = pdet.get(hid) or {}
        results[short] = {
            "harness": short, "verdict": verdict, "reasons": reasons, "status": r.get("status"),
            "time_s": round((r.get("duration_ms") or 0) / 1000.0, 2),
            "solver_s": round(st.get("runtime_decision_procedure_s") or 0.0, 2),
            "symex_s": round(st.get("runtime_symex_s") or 0.0, 2),
            "vccs": st.get("vccs_generated"), "vccs_remaining": st.get("vccs_remaining"),
            "program_size": st.get("size_program_expression"),
            "checks_total": pd.get("total_properties"), "checks_passed": pd.get("passed"),
            "covers_satisfied": pd.get("satisfied"),
        }
    for n in names:
        if n not in results:
            results[n] = {"harness": n, "verdict": INCONCLUSIVE, "status": "missing",
                          "reasons": ["no result reported for this harness (not found in the crate, or Kani stopped early)"],
                          "time_s": 0, "solver_s": 0}
    return results, None, shown


CBMC_FLAGS = ["--no-malloc-may-fail", "--no-undefined-shift-check", "--no-signed-overflow-check", "--nan-check",
              "--no-self-loops-to-assumptions", "--no-pointer-primitive-check", "--object-bits", "16", "--sat-solver", "cadical",
              "--slice-formula"]
ANY_RE = re.compile(r"goto_symex\$\$return_value\$\$\S*any_raw_(?:internal|array)\S*?(\[\d+\])?=.*\(([01 ]+)\)\s*$")


def cbmc_assignment(overlay, name, reasons, timeout_s, mem_gb, log_path):
    """The solver's assignment to every kani::any() of a failing harness, read from CBMC's own text trace
    (`cbmc --trace --compact-trace` on the goto binary Kani built, same flags Kani uses).  Kani's concrete playback
    parses CBMC's JSON trace in memory and ran the driver out of memory on the larger harnesses; the text trace is
    streamed.  Returns [{kind, check, test}] like concrete_playback()."""
    try:
        with open(os.path.join(overlay, "harness-meta.json")) as fh:
            h = json.load(fh).get(name.split("::")[-1])
        if h is None:
            return []
        binf = h["goto_file"].replace(".symtab.out", ".out")
        if not os.path.exists(binf):
            return []
    except (OSError, KeyError, ValueError):
        return []
    env = _env()
    env["PATH"] = os.path.expanduser("~/.kani/kani-0.68.0/bin") + os.pathsep + env.get("PATH", "")
    lim = int(mem_gb * (1 << 30))

    def pre():
        resource.setrlimit(resource.RLIMIT_AS, (lim, lim))

    # the CBMC property names of the failed checks (by their description text), so that only those traces are produced
    want0 = [r.split(" [")[0].strip().strip('"') for r in reasons if r]
    props = []
    try:
        sp = subprocess.run(["cbmc", "--show-properties", binf], capture_output=True, text=True, errors="replace", env=env, timeout=600)
        cur_name = None
        for line in sp.stdout.splitlines():
            if line.startswith("Property "):
                cur_name = line[len("Property "):].rstrip(":").strip()
            elif cur_name and "KANI_CHECK_ID" in line and any(w and w in line for w in want0):
                if ".reachability_check." not in cur_name and ".cover." not in cur_name and cur_name not in props:
                    props.append(cur_name)
    except (OSError, subprocess.TimeoutExpired):
        props = []
    cmd = ["cbmc"] + CBMC_FLAGS
    uw = h.get("unwind")
    if uw:
        cmd += ["--unwind", str(uw)]
    cmd += [binf, "--trace", "--compact-trace"]
    for pn in props[:3]:
        cmd += ["--property", pn]
    short = name.split("::")[-1]
    want = [r.split(" [")[0].strip().strip('"') for r in reasons if r]
    sections = []      # (property name, [byte vectors], description text)
    cur = None
    t0 = time.time()
    with open(log_path, "w") as log:
        p = subprocess.Popen(cmd, stdout=subprocess.PIPE, stderr=subprocess.STDOUT, text=True, errors="replace", env=env, preexec_fn=pre)
        try:
            for line in p.stdout:
                if time.time() - t0 > timeout_s:
                    p.kill()
                    break
                if line.startswith("Trace for "):
                    cur = [line[len("Trace for "):].strip().rstrip(":"), [], ""]
                    sections.append(cur)
                    continue
                if cur is None:
                    continue
                m = ANY_RE.search(line)
                if m:
                    bits = m.group(2).replace(" ", "")
                    by = [int(bits[i:i + 8], 2) for i in range(0, len(bits), 8)]
                    by.reverse()
                    cur[1].append(by)
                elif "KANI_CHECK_ID" in line and '"' in line:
                    cur[2] += line.strip() + " "
            p.wait()
        finally:
            if p.poll() is None:
                p.kill()
        log.write("cbmc text-trace extraction for %s: %d trace sections (properties targeted: %s)\n" % (short, len(sections), props[:3]))
    cand = [s for s in sections if ".reachability_check." not in s[0] and ".cover." not in s[0]]
    chosen = None
    for s_ in cand:
        if any(w and w in s_[2] for w in want):
            chosen = s_
            break
    if chosen is None and cand:
        chosen = cand[0]
    if chosen is None:
        return []
    vals = ",\n".join("        vec![%s]" % ", ".join(str(b) for b in v) for v in chosen[1])
    tname = "kani_concrete_playback_%s_cbmc" % short
    test = ("#[test]\nfn %s() {\n    let concrete_vals: Vec<Vec<u8>> = vec![\n%s\n    ];\n"
            "    kani::concrete_playback_run(concrete_vals, %s);\n}" % (tname, vals, short))
    return [{"kind": "assertion", "check": chosen[2].strip() or chosen[0], "test": test}]


PLAYBACK_RE = re.compile(r"```\s*\n(.*?)```", re.S)


def concrete_playback(overlay, name, timeout_s, mem_gb, log_path, extra_args=()):
    """Re-run one failing harness with concrete playback; return [{kind, check, test}] for every failed
    non-cover check (the solver's assignment as a unit test over the real harness body)."""
    cmd = ["cargo", "kani", "--target-dir", TARGET, "-Z", "stubbing", "-Z", "unstable-options", "-Z", "concrete-playback",
           "--concrete-playback=print", "--harness-timeout", "%ds" % timeout_s, "--exact", "--harness", PREFIX + name]
    cmd += list(extra_args)
    with open(log_path, "w") as log:
        _run_capped(cmd, overlay, log, mem_gb)
    with open(log_path, errors="replace") as fh:
        txt = fh.read()
    blocks = re.findall(r"Concrete playback unit test for `[^`]+`:\s*```\s*\n(.*?)```", txt, re.S)
    out = []
    for b in blocks:
        k = re.search(r"/// Check for `(\w+)`: (.*)", b)
        kind, desc = (k.group(1), k.group(2).strip()) if k else ("?", "")
        if kind == "cover":
            continue
        m = re.search(r"(#\[test\]\s*\n\s*fn kani_concrete_playback_\w+\(\)\s*\{.*?\n\})", b, re.S)
        if m:
            out.append({"kind": kind, "check": desc, "test": m.group(1)})
    return out


def native_playback(overlay, harness_file_rel, test_src, log_path, timeout_s=900, extra_args=()):
    """Append the generated unit test to the harness' module and run it natively (real std, no stubs).
    Returns 'reproduced' | 'not-reproduced' | 'error'."""
    path = os.path.join(overlay, harness_file_rel)
    with open(path) as fh:
        orig = fh.read()
    m = re.search(r"fn (kani_concrete_playback_\w+)", test_src)
    if not m:
        return "error"
    tname = m.group(1)
    try:
        with open(path, "w") as fh:
            fh.write(orig + "\n" + test_src + "\n")
        env = _env()
        env["CARGO_TARGET_DIR"] = os.path.join(CACHE, "playback-target")
        cmd = ["cargo", "kani", "playback", "-Z", "concrete-playback"] + list(extra_args) + ["--", tname]
        try:
            with open(log_path, "w") as log:
                p = subprocess.run(cmd, cwd=overlay, env=env, stdout=log, stderr=subprocess.STDOUT, timeout=timeout_s)
        except subprocess.TimeoutExpired:
            return "error"
        with open(log_path, errors="replace") as fh:
            txt = fh.read()
        if re.search(r"test result: FAILED", txt) and tname in txt:
            return "reproduced"
        if re.search(r"test result: ok\. 1 passed", txt):
            return "not-reproduced"
        return "error"
    finally:
        with open(path, "w") as fh:
            fh.write(orig)
