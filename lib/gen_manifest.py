#!/usr/bin/python3
"""Regenerate MANIFEST.json from the registry + the per-property texts below."""
import json, os, sys
VERIF = os.path.dirname(os.path.dirname(os.path.abspath(__file__)))
sys.path.insert(0, os.path.join(VERIF, "harness"))
import registry

TECH = "bounded symbolic execution of the real code (Kani 0.68 -> CBMC 6.11 -> CaDiCaL), native replay of counterexamples"
K = "Kani 0.68/CBMC 6.11/CaDiCaL over the code compiled from /repo's working tree; color-eyre shim; stubs and contracts as listed in the evidence file; "
CLAIMS = {
    "C01": dict(text="Inductive one-step argument decided by the solver: for every opcode, from every abstract stack of depth <= N (all 18 object kinds per slot, "
                     "MARKs anywhere, symbolic memo size and flags) the real can_emit implies the pickletools.dis precondition (GUARD), the real process_stack_ops "
                     "keeps the simulated stack in step with the reference machine (STEP), the emitters append exactly the opcode that was simulated (EMIT), and the "
                     "real cleanup_for_stop collapses every stack of depth <= 8 with any MARK pattern to exactly one object using only legal opcodes (TAIL).",
                note=K + "depth bounds N=3/6 (quick/thorough), tail depth 5/8; composition of the per-step lemmas is a paper induction; assumption A1 (payload-free guards) checked syntactically.",
                ref="§4 GUARD/STEP/EMIT/TAIL, §5 C01"),
    "C02": dict(text="PUT-family emitters executed symbolically for every memo size m <= 70000: the emitted index equals m (fresh); guards of PUT/GET families imply the "
                     "reference memo preconditions (non-MARK top, non-empty memo); the stack effect of PUT/GET/MEMOIZE keeps the memo index set equal to the reference machine's.",
                note=K + "memo modelled as a symbolic size with contiguous keys (the invariant shown by the PUT harnesses); GET index selection on a real multi-entry table is outside (HashMap internals are intractable for CBMC).",
                ref="§4 MEMO-PUT/GUARD/STEP, §5 C02"),
    "C03": dict(text="For every typed opcode and every kind vector of depth <= N the real can_emit implies the operand-kind rules of the property, evaluated by an independent "
                     "reference machine (kinds from CPython's pickletools table); STEP shows the kinds pushed by every opcode stay compatible with the reference machine's.",
                note=K + "N=3/6; kinds abstract the variant only (A1).", ref="§4 GUARD/STEP, §5 C03"),
    "C04": dict(text="Every emitter is executed symbolically (all entropy up to the stated length, every protocol, flags, rates, memo sizes; unsafe TypeConfusion included) and the "
                     "bytes it appends are decoded by an independent lexer derived from pickletools: exactly one complete in-domain lexeme. STRING/UNICODE escaping chains are "
                     "translated from the source to a bit-vector query (all strings <= 6/8 bytes) decided by z3 and cvc5. Header/STOP layout from HEAD.",
                note=K + "z3 5.1 + cvc5 for ESC; FLOAT text (Display for f64) and String-typed mutator paths on non-empty strings are outside; payloads <= 2 bytes in Kani.",
                ref="§4 EMIT/ESC/POST/HEAD, §5 C04", tech="bounded symbolic execution (Kani/CBMC) + SMT encoding of the escaping chains (z3, cvc5), native replay"),
    "C05": dict(text="Opcode tables checked against CPython's introducing-protocol column for every entry; every emission site (emitters, integer variant choice, collapse tail) "
                     "shown to emit only opcodes of the protocol's vocabulary for symbolic P; PROTO header exactly for P >= 2 (HEAD); protocol-0 bytes < 0x80.",
                note=K + "ESC for ASCII preservation of escaped strings; name table scanned as data.", ref="§4 TABLE/EMIT/TAIL/HEAD, §5 C05"),
    "C06": dict(text="The real generate_internal (header, reservation, back-patching) is executed with contracts for its multi-step callees: for every protocol and entropy string the "
                     "output is PROTO [+ FRAME with length = exactly the rest] + body + STOP; FRAME never a body choice (GUARD) and never produced by TypeConfusion (POST).",
                note=K + "body/tail contracts append a fixed number (0..2) of arbitrary bytes per call, T <= 2.", ref="§4 HEAD/POST, §5 C06"),
    "C07": dict(text="Reduced scope: generate() with a seed and generate_from_arbitrary() are run twice symbolically with equal configuration and entropy and must return equal "
                     "bytes; seven representative emitters likewise. Because Kani rejects every reachable syscall, FFI call, clock read or inline asm, a pass also shows that no "
                     "OS entropy or wall-clock source is reachable on these paths (the unseeded path is kept as a must-fail twin).",
                note=K + "hash-seed / allocation-address dependence, thread interleavings, worker counts, separate processes and batch mode are outside (Kani models no concurrency; main() is not executable).",
                ref="§4 PURITY, §5 C07"),
    "C08": dict(text="Two generation calls on one generator, with and without reset(), compared with a fresh generator for every protocol and input (<= 2 bytes); the used generator "
                     "starts from an arbitrary dirty scratch state (symbolic) or a real earlier call (native replay).",
                note=K + "callee contracts deterministic in this family; T <= 1.", ref="§4 HEAD(reuse), §5 C08"),
    "C09": dict(text="Kani's panic, overflow, bounds, RefCell-borrow and unwinding checks are on in every harness of every family: each unit of the generator is shown panic-free and "
                     "terminating inside its bounds, incl. opcode-range arithmetic for arbitrary max, aliased cells in the container-mutating arms, exhausted entropy.",
                note=K + "recursion depth, allocation failure and anything past the stated bounds are outside.", ref="§5 C09"),
    "C10": dict(text="can_emit(EXT*/buffer) implies the opt-in flag for every state and flag value (GUARD); no other emitter arm, the collapse tail or TypeConfusion produces one of "
                     "the five opcodes (EMIT, TAIL, POST).",
                note=K + "CLI flag forwarding (main.rs) is outside.", ref="§5 C10"),
    "C11": dict(text="generate_internal executed with symbolic (min,max) incl. inverted/equal/zero and max up to usize::MAX: the number of body emissions T satisfies the stated "
                     "relation; each emission appends exactly one lexeme (EMIT); the valid set is never empty (GUARD NONE); tail <= 2d+1 opcodes (TAIL).",
                note=K + "min,max <= 2/4 symbolic plus an arithmetic-only instance for arbitrary max.", ref="§4 HEAD(count)/EMIT/TAIL, §5 C11"),
    "C12": dict(text="Reduced to satisfiability: for every opcode the solver finds a state in which its guard is enabled (cover queries), and the tables are shown complete w.r.t. "
                     "CPython for every protocol; both frame choices are covered in HEAD. Existence of a *seed* is outside (PRNG inversion).",
                note=K + "reduced scope, see DESIGN.md §5 C12.", ref="§4 GUARD(cover)/TABLE, §5 C12"),
    "C15": dict(text="Each mutator gate site is executed symbolically at rate 0.0 and 1.0 on both entropy sources for every argument value and every entropy state "
                     "(fuzzer strings 0..16 bytes incl. exhausted; all PRNG word streams); TypeConfusion at symbolic rate via POST.",
                note=K + "String-typed sites only with the empty string; PRNG as arbitrary word stream.", ref="§4 MUT, §5 C15"),
    "C16": dict(text="Every mutator method is executed symbolically for all i32/i64/usize/f64 values, byte strings of length 0..3, every rate in [0,1] and every entropy state; "
                     "the result is asserted to lie in the documented contract. TypeConfusion's rewrite is lexed by the reference lexer.",
                note=K + "String-typed methods only on the empty string (symbolic chars exhaust CBMC memory); byte strings of 4..64 items outside.", ref="§4 MUT/POST, §5 C16"),
    "C17": dict(text="Per-opcode simulation relation: after the real process_stack_ops from every abstract state in which the opcode can be chosen, depth, MARK positions, slot kinds and "
                     "memo index set equal the reference machine's step; EMIT shows the simulation is invoked with exactly the bytes appended.",
                note=K + "depth <= 3/5; GLOBAL/INST arms on one concrete two-name argument (thorough).", ref="§4 STEP/EMIT, §5 C17"),
    "C18": dict(text="Every entropy-adapter method of GenerationSource is executed symbolically on both branches: all fuzzer byte strings of "
                     "length 0..16 with all usize arguments, and all PRNG word streams (range width <= 1024); the solver shows range, "
                     "fallback and length postconditions and panic-freedom for every such input.",
                note=K + "PRNG ranges wider than the stated bound are outside.", ref="§4 ENT, §5 C18"),
}
NA = {
    "C13": "front ends are main() over clap/rayon/filesystem, a bash script and a pyo3 extension: none can be executed by Kani/CBMC or encoded for an SMT solver within reach, and no pure fragment carries the property (DESIGN.md §5 C13)",
    "C14": "needs the real Rc drop glue over arbitrary object graphs; probes with real drop glue did not finish (30 min / 5.4 GB) and every tractable harness stubs Rc::drop_slow, under which freeing is unobservable (DESIGN.md §5 C14)",
}
PENDING = "check not built yet in this session (build in progress; see DESIGN.md §11)"

def main():
    props = [json.loads(l)["id"] for l in open(os.path.join(VERIF, "properties.jsonl"))]
    # order of the checks: light ones first; the per-tree verdict cache then serves the units they share with the heavy ones
    ORDER = ["C18", "C15", "C16", "C12", "C08", "C06", "C07", "C11", "C10", "C02", "C17", "C03", "C01", "C04", "C05", "C09"]
    props = [p for p in ORDER if p in props] + [p for p in props if p not in ORDER]
    have = registry.all_props()
    checks, na = [], []
    for p in props:
        if p in CLAIMS and p in have:
            c = CLAIMS[p]
            checks.append({
                "property_id": p,
                "quick_cmd": "./check %s --tier quick" % p,
                "thorough_cmd": "./check %s --tier thorough" % p,
                "evidence_file": "/verif/evidence/%s.json" % p,
                "replay_cmd_template": "./check --replay {path}",
                "engine": "kani-overlay",
                "level_claimed": {"category": "other", "text": c["text"], "design_ref": c["ref"]},
                "level_note": c["note"],
                "technique": c.get("tech", TECH),
            })
        else:
            na.append({"property_id": p, "reason": NA.get(p, PENDING)})
    m = {
        "version": 1,
        "setup_cmd": "./check --setup",
        "hooks": {
            "guard": "cfg(kani)",
            "enable": "no source hooks in /repo: every check copies /repo's working tree to a scratch overlay, appends `#[cfg(kani)] mod verif_kani;` to src/generator/mod.rs there and compiles it with cargo kani (which sets cfg(kani))",
            "baseline_off_cmd": "cd /repo && cargo test --workspace --no-fail-fast --offline",
            "source_commits": [],
            "add_only": True,
        },
        "engines": [
            {"name": "kani-overlay", "path": "/verif/check", "serves_properties": [c["property_id"] for c in checks],
             "kind_free_text": "Kani 0.68 / CBMC 6.11 bounded model checking of the crate's own functions, harnesses in /verif/harness/kani grafted into a scratch copy of /repo"},
            {"name": "esc-smt", "path": "/verif/lib/esc.py", "serves_properties": ["C04", "C05"],
             "kind_free_text": "source-to-SMT translation of the STRING/UNICODE escaping chains, decided by z3 5.1 and cvc5, validated against the compiled code"},
        ],
        "checks": checks,
        "not_applicable": na,
        "notes": "Exit 2 from a check means inconclusive (tool error, cap hit, vacuity, non-reproducing counterexample) and is never a pass. See DESIGN.md.",
    }
    with open(os.path.join(VERIF, "MANIFEST.json"), "w") as fh:
        json.dump(m, fh, indent=1)
    print("claimed:", [c["property_id"] for c in checks])

main()
