#!/usr/bin/python3
"""Regenerate MANIFEST.json from the registry + the per-property texts below."""
import json, os, sys
VERIF = os.path.dirname(os.path.dirname(os.path.abspath(__file__)))
sys.path.insert(0, os.path.join(VERIF, "harness"))
import registry

TECH = "bounded symbolic execution of the real code (Kani 0.68 -> CBMC 6.11 -> CaDiCaL), native replay of counterexamples"
CLAIMS = {
    "C18": dict(text="Every entropy-adapter method of GenerationSource is executed symbolically on both branches: all fuzzer byte strings of "
                     "length 0..16 with all usize arguments, and all PRNG word streams (range width <= 1024 in quick); the solver shows range, "
                     "fallback and length postconditions and panic-freedom for every such input.",
                note="Kani/CBMC/CaDiCaL; color-eyre shim; ChaCha8 core modelled as an arbitrary word stream; PRNG ranges wider than the stated bound are outside.",
                ref="§4 ENT, §5 C18"),
    "C15": dict(text="Each of the mutator gate sites is executed symbolically at rate 0.0 and 1.0 on both entropy sources for every argument value "
                     "and every entropy state (fuzzer strings 0..16 bytes incl. exhausted; all PRNG word streams).",
                note="Kani/CBMC/CaDiCaL; String-typed sites only with the empty string; PRNG as arbitrary word stream.",
                ref="§4 MUT, §5 C15"),
}
NA = {
    "C13": "front ends are main() over clap/rayon/filesystem, a bash script and a pyo3 extension: none can be executed by Kani/CBMC or encoded for an SMT solver within reach, and no pure fragment carries the property (DESIGN.md §5 C13)",
    "C14": "needs the real Rc drop glue over arbitrary object graphs; probes with real drop glue did not finish (30 min / 5.4 GB) and every tractable harness stubs Rc::drop_slow, under which freeing is unobservable (DESIGN.md §5 C14)",
}
PENDING = "check not built yet in this session (build in progress; see DESIGN.md §11)"

def main():
    props = [json.loads(l)["id"] for l in open(os.path.join(VERIF, "properties.jsonl"))]
    have = registry.all_props()
    checks, na = [], []
    for p in props:
        if p in CLAIMS and p in have:
            c = CLAIMS[p]
            checks.append({
                "property_id": p,
                "quick_cmd": "./check %s --tier quick" % p,
                "thorough_cmd": "./check %s --tier thorough" % p,
                "evidence_file": "/verif/evidence/%s.json" % p,
                "replay_cmd_template": "./check --replay {path}",
                "engine": "kani-overlay",
                "level_claimed": {"category": "other", "text": c["text"], "design_ref": c["ref"]},
                "level_note": c["note"],
                "technique": c.get("tech", TECH),
            })
        else:
            na.append({"property_id": p, "reason": NA.get(p, PENDING)})
    m = {
        "version": 1,
        "setup_cmd": "./check --setup",
        "hooks": {
            "guard": "cfg(kani)",
            "enable": "no source hooks in /repo: every check copies /repo's working tree to a scratch overlay, appends `#[cfg(kani)] mod verif_kani;` to src/generator/mod.rs there and compiles it with cargo kani (which sets cfg(kani))",
            "baseline_off_cmd": "cd /repo && cargo test --workspace --no-fail-fast --offline",
            "source_commits": [],
            "add_only": True,
        },
        "engines": [
            {"name": "kani-overlay", "path": "/verif/check", "serves_properties": [c["property_id"] for c in checks],
             "kind_free_text": "Kani 0.68 / CBMC 6.11 bounded model checking of the crate's own functions, harnesses in /verif/harness/kani grafted into a scratch copy of /repo"},
        ],
        "checks": checks,
        "not_applicable": na,
        "notes": "Exit 2 from a check means inconclusive (tool error, cap hit, vacuity, non-reproducing counterexample) and is never a pass. See DESIGN.md.",
    }
    with open(os.path.join(VERIF, "MANIFEST.json"), "w") as fh:
        json.dump(m, fh, indent=1)
    print("claimed:", [c["property_id"] for c in checks])

main()
