"""Family ESC (C04, C05): the `.replace(<char>, "<str>")` escaping chains of the STRING and UNICODE arms of
emit_string, translated from the *source text* of /repo's emission.rs into a bit-vector query for z3 and cvc5
(Rust `String` code is beyond CBMC here, DESIGN.md §4 ESC).

Input: L optional bytes (symbolic length 0..L).  Each stage maps every optional character to |to| optional
characters.  The resulting line is run through the reference rules of pickletools' argument readers as a small
automaton; the negated property is sent to both solvers.  `sat` yields a concrete string, replayed natively."""
import os
import re
import subprocess
import time

Z3 = "z3-new"   # z3 5.1.0 (the distribution z3 4.8.12 does not finish the 192-slot STRING query in 300 s)
CVC5 = "cvc5"


class EscError(Exception):
    pass


def unescape_rust(lit):
    """contents of a Rust char/str literal -> bytes (ASCII escapes only)"""
    out = bytearray()
    i = 0
    while i < len(lit):
        c = lit[i]
        if c == "\\":
            n = lit[i + 1]
            m = {"\\": 0x5c, "'": 0x27, '"': 0x22, "n": 0x0a, "r": 0x0d, "t": 0x09, "0": 0}
            if n in m:
                out.append(m[n])
                i += 2
            elif n == "x":
                out.append(int(lit[i + 2:i + 4], 16))
                i += 4
            else:
                raise EscError("unsupported escape in literal: %r" % lit)
        else:
            if ord(c) > 0x7f:
                raise EscError("non-ASCII literal: %r" % lit)
            out.append(ord(c))
            i += 1
    return bytes(out)


REPL = re.compile(r"""\.replace\(\s*'((?:\\.|[^'\\])+)'\s*,\s*"((?:\\.|[^"\\])*)"\s*\)""")


def parse_arm(src, arm):
    """-> (stages [(from_byte, to_bytes)], prefix, suffix) for `String =>` / `Unicode =>` in emit_string"""
    f = src.index("fn emit_string")
    body = src[f:src.index("fn emit_bytes", f)]
    m = re.search(r"\n\s*%s => \{" % arm, body)
    if not m:
        raise EscError("arm %s not found in emit_string" % arm)
    seg = body[m.end():]
    # end of arm: the process_stack_ops call
    seg = seg[:seg.index("self.process_stack_ops")]
    em = re.search(r"let\s+escaped\s*=\s*s\b(.*?);", seg, re.S)
    if not em:
        raise EscError("arm %s: `let escaped = s...;` not found" % arm)
    chain = re.sub(r"//[^\n]*", "", em.group(1))
    stages = []
    pos = 0
    rest = chain
    for rm in REPL.finditer(chain):
        stages.append((unescape_rust(rm.group(1)), unescape_rust(rm.group(2))))
    leftover = REPL.sub("", chain).strip()
    if leftover:
        raise EscError("arm %s: unparsed text in the escaping chain: %r" % (arm, leftover))
    for fr, to in stages:
        if len(fr) != 1:
            raise EscError("pattern is not a single ASCII char")
    fm = re.search(r"""format!\(\s*"((?:\\.|[^"\\])*)"\s*,\s*escaped\s*\)""", seg)
    if not fm:
        raise EscError("arm %s: format!(\"..{}..\", escaped) not found" % arm)
    fmt = fm.group(1)
    if fmt.count("{}") != 1:
        raise EscError("format string must contain exactly one {}")
    pre, suf = fmt.split("{}")
    return [(f[0], t) for f, t in stages], unescape_rust(pre), unescape_rust(suf)


def interpret(stages, prefix, suffix, s):
    """the parsed chain applied to concrete bytes (used to validate the translator against the compiled code)"""
    for fr, to in stages:
        s = s.replace(bytes([fr]), to)
    return prefix + s + suffix


# ---- SMT generation --------------------------------------------------------------------------------------

def bv(n):
    return "#x%02x" % n


class Q:
    def __init__(self):
        self.decls = []
        self.asserts = []
        self.n = 0

    def fresh(self, sort, name):
        self.n += 1
        v = "%s_%d" % (name, self.n)
        self.decls.append("(declare-const %s %s)" % (v, sort))
        return v

    def define(self, sort, name, expr):
        self.n += 1
        v = "%s_%d" % (name, self.n)
        self.decls.append("(define-fun %s () %s %s)" % (v, sort, expr))
        return v


def build_query(stages, prefix, suffix, arm, L, lo, hi):
    q = Q()
    slots = []
    inputs = []
    prev = None
    for i in range(L):
        p = q.fresh("Bool", "p")
        b = q.fresh("(_ BitVec 8)", "b")
        inputs.append((p, b))
        if prev is not None:
            q.asserts.append("(=> %s %s)" % (p, prev))
        prev = p
        q.asserts.append("(=> %s (and (bvuge %s %s) (bvule %s %s)))" % (p, b, bv(lo), b, bv(hi)))
        slots.append((p, b))
    for fr, to in stages:
        new = []
        for (p, b) in slots:
            hit = q.define("Bool", "hit", "(and %s (= %s %s))" % (p, b, bv(fr)))
            if len(to) == 0:
                new.append((q.define("Bool", "p", "(and %s (not %s))" % (p, hit)), b))
                continue
            new.append((p, q.define("(_ BitVec 8)", "b", "(ite %s %s %s)" % (hit, bv(to[0]), b))))
            for t in to[1:]:
                new.append((hit, bv(t)))
        slots = new
    line = [("true", bv(c)) for c in prefix] + slots + [("true", bv(c)) for c in suffix]
    # The argument is the line up to and including the FIRST newline.  Property: the only newline is the last byte,
    # and the line without it satisfies the reader's rule.
    if not suffix.endswith(b"\n"):
        raise EscError("argument is not newline-terminated")
    body = line[:-1]
    bad_terms = []
    for (p, b) in body:
        bad_terms.append("(and %s (= %s #x0a))" % (p, b))
    # automaton over `body`
    ST = "(_ BitVec 3)"
    NORMAL, BS, HEX1, HEX2, BAD, BSRUN_ODD = "#b000", "#b001", "#b010", "#b011", "#b100", "#b101"

    def hexp(b):
        return ("(or (and (bvuge {0} #x30) (bvule {0} #x39)) (and (bvuge {0} #x61) (bvule {0} #x66)) "
                "(and (bvuge {0} #x41) (bvule {0} #x46)))").format(b)

    st = NORMAL
    if arm == "String":
        # quoted_ok: first and last char are the same quote; inside: ASCII, valid escapes, no unescaped quote
        if len(prefix) != 1 or prefix[0] not in (0x27, 0x22) or suffix[:-1] != prefix:
            bad_terms.append("true")
        quote = bv(prefix[0]) if prefix else "#x27"
        for (p, b) in body[len(prefix):len(body) - (len(suffix) - 1)]:
            nxt = ("(ite (= {s} {N}) (ite (= {b} #x5c) {BS} (ite (or (= {b} {q}) (bvuge {b} #x80)) {BAD} {N})) "
                   "(ite (= {s} {BS}) (ite (= {b} #x78) {H1} {N}) "
                   "(ite (= {s} {H1}) (ite {hx} {H2} {BAD}) "
                   "(ite (= {s} {H2}) (ite {hx} {N} {BAD}) {BAD}))))").format(
                s=st, b=b, N=NORMAL, BS=BS, H1=HEX1, H2=HEX2, BAD=BAD, q=quote, hx=hexp(b))
            st = q.define(ST, "st", "(ite %s %s %s)" % (p, nxt, st))
        bad_terms.append("(not (= %s %s))" % (st, NORMAL))
    else:
        # raw-unicode-escape: a backslash run of odd length followed by u/U starts an escape that then needs hex
        # digits; the generator never intends one, so any such start is a violation (it would change the string or
        # fail to decode).  State: NORMAL (even run so far) / BS (odd run so far).
        for (p, b) in body:
            nxt = ("(ite (= {s} {N}) (ite (= {b} #x5c) {BS} (ite (bvuge {b} #x80) {BAD} {N})) "
                   "(ite (= {s} {BS}) (ite (= {b} #x5c) {N} (ite (or (= {b} #x75) (= {b} #x55)) {BAD} {N})) {BAD}))").format(
                s=st, b=b, N=NORMAL, BS=BS, BAD=BAD)
            st = q.define(ST, "st", "(ite %s %s %s)" % (p, nxt, st))
        bad_terms.append("(= %s %s)" % (st, BAD))
    text = ["(set-logic ALL)", "(set-option :produce-models true)"] + q.decls
    text += ["(assert %s)" % a for a in q.asserts]
    text.append("(assert (or %s))" % " ".join(bad_terms))
    text.append("(check-sat)")
    text.append("(get-value (%s))" % " ".join(v for pb in inputs for v in pb))
    return "\n".join(text) + "\n", inputs, len(slots)


def run_solver(cmd, smt, timeout=300):
    t0 = time.time()
    try:
        r = subprocess.run(cmd, input=smt, capture_output=True, text=True, timeout=timeout)
    except subprocess.TimeoutExpired:
        return "timeout", "", time.time() - t0
    out = r.stdout + r.stderr
    if "(error" in out and "model is not available" not in out and "cannot get value" not in out.lower():
        return "error", out, time.time() - t0
    first = out.strip().splitlines()[0].strip() if out.strip() else "?"
    return first, out, time.time() - t0


def model_string(out, inputs):
    vals = dict(re.findall(r"\((\w+)\s+(true|false|#x[0-9a-fA-F]{2})\)", out))
    s = bytearray()
    for p, b in inputs:
        if vals.get(p) == "true":
            s.append(int(vals[b][2:], 16))
    return bytes(s)


def decide(src, arm, L, lo, hi):
    """-> dict(verdict ok|fail|inconclusive, witness bytes|None, info)"""
    stages, prefix, suffix = parse_arm(src, arm)
    smt, inputs, nslots = build_query(stages, prefix, suffix, arm, L, lo, hi)
    v1, o1, t1 = run_solver([Z3, "-in"], smt)
    v2, o2, t2 = run_solver([CVC5, "--lang", "smt2", "--produce-models"], smt)
    info = dict(stages=[(chr(f), t.decode("latin1")) for f, t in stages], prefix=prefix.decode("latin1"),
                suffix=suffix.decode("latin1"), slots=nslots, z3=v1, cvc5=v2, z3_s=round(t1, 2), cvc5_s=round(t2, 2),
                L=L, alphabet="0x%02x..0x%02x" % (lo, hi))
    if v1 not in ("sat", "unsat") or v2 not in ("sat", "unsat") or v1 != v2:
        return dict(verdict="inconclusive", witness=None, info=info, detail=(o1[-300:], o2[-300:]))
    if v1 == "unsat":
        return dict(verdict="ok", witness=None, info=info)
    return dict(verdict="fail", witness=model_string(o1, inputs), info=info)
