#!/bin/bash
# usage: try_seeded.sh <seeded-name> <prop> <only-regex> [tier]  — apply a seeded change to /repo, run the check, undo.
NAME=$1; PROP=$2; ONLY=$3; TIER=${4:-quick}
cd /verif
git -C /repo diff --quiet || { echo "/repo dirty"; exit 3; }
git -C /repo apply /verif/seeded/$NAME/patch.diff || { echo "patch does not apply"; exit 3; }
if [ -n "$ONLY" ]; then ./check $PROP --tier $TIER --only "$ONLY" > /tmp/try_$NAME.log 2>&1; else ./check $PROP --tier $TIER > /tmp/try_$NAME.log 2>&1; fi
RC=$?
git -C /repo checkout -- .
mkdir -p seeded/$NAME/replays
grep -o "replay=[^ ]*" /tmp/try_$NAME.log | cut -d= -f2 | sort -u | while read f; do cp "$f" seeded/$NAME/replays/ 2>/dev/null; done
grep -v "^WARNING" /tmp/try_$NAME.log | tail -6
echo "try_seeded $NAME prop=$PROP only=$ONLY tier=$TIER rc=$RC"
