#!/bin/bash
# Regenerate evidence/<id>.json for every claimed property by running each registered quick command in /verif
# against /repo itself (in MANIFEST order), then validate MANIFEST and evidence against the schemas.
cd /verif
for p in $(/usr/bin/python3 -c "import json;print(' '.join(c['property_id'] for c in json.load(open('MANIFEST.json'))['checks']))"); do
  echo "=== $p $(date +%T)"
  ./check $p --tier quick 2>&1 | grep -v "^WARNING" | grep -E "INCONCL|VIOLATION|KNOWN|queries discharged|MACHINERY|retrying"
  echo "rc=${PIPESTATUS[0]}"
done
python3-vt - <<'PY'
import json, jsonschema, glob
jsonschema.validate(json.load(open('/verif/MANIFEST.json')), json.load(open('/root/.vp/MANIFEST.schema.json')))
s=json.load(open('/root/.vp/EVIDENCE.schema.json'))
for f in sorted(glob.glob('/verif/evidence/*.json')):
    d=json.load(open(f)); jsonschema.validate(d, s)
    print(f.split('/')[-1], d['tier'], d['coverage']['obligations'], d['coverage']['discharged'], d['violations'], d['wall_s'], d.get('development_filter'))
print('schemas ok')
PY
echo ALLDONE $(date +%T)
