#!/bin/bash
# usage: reconfirm_seeded.sh <name> — re-confirm /verif/seeded/<name> against /repo HEAD (patch applies, suite passes, demo fails with / passes without)
NAME=$1; OUT=/verif/seeded/$NAME; SCR=/tmp/confirm_$NAME
rm -rf $SCR; git -C /repo worktree add -q --detach $SCR HEAD || exit 3
cd $SCR; export CARGO_TARGET_DIR=$SCR/target CARGO_NET_OFFLINE=true
LOG=$OUT/confirm.log; : > $LOG
echo "== base commit $(git rev-parse --short HEAD)" >> $LOG
cp $OUT/seeded_demo.rs tests/seeded_demo.rs
echo "== demo WITHOUT the change" >> $LOG; cargo test --offline --test seeded_demo >> $LOG 2>&1; R_CLEAN=$?
git apply $OUT/patch.diff >> $LOG 2>&1; R_APPLY=$?
echo "== demo WITH the change" >> $LOG; cargo test --offline --test seeded_demo >> $LOG 2>&1; R_MUT=$?
rm tests/seeded_demo.rs
echo "== existing suite WITH the change" >> $LOG; cargo test --workspace --no-fail-fast --offline >> $LOG 2>&1; R_SUITE=$?
echo "RESULT name=$NAME apply=$R_APPLY demo_clean=$R_CLEAN demo_mutant=$R_MUT suite_mutant=$R_SUITE" | tee -a $LOG
cd /; git -C /repo worktree remove --force $SCR
