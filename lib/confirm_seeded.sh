#!/bin/bash
# usage: confirm_seeded.sh <worktree> <name>   — confirm an agent-written seeded change independently:
#  (1) patch applies to a clean checkout of /repo HEAD, (2) existing suite passes with it, (3) demo fails with it, (4) demo passes without it.
set -u
WT=$1; NAME=$2
OUT=/verif/seeded/$NAME
mkdir -p $OUT
cp $WT/patch.diff $OUT/patch.diff
cp $WT/tests/seeded_demo.rs $OUT/seeded_demo.rs
cp $WT/NOTES.md $OUT/NOTES.agent.md 2>/dev/null
SCR=/tmp/confirm_$NAME
rm -rf $SCR; git -C /repo worktree add -q --detach $SCR HEAD || exit 3
cd $SCR
export CARGO_TARGET_DIR=$SCR/target CARGO_NET_OFFLINE=true
LOG=$OUT/confirm.log; : > $LOG
echo "== base commit $(git rev-parse --short HEAD)" >> $LOG
cp $OUT/seeded_demo.rs tests/seeded_demo.rs
echo "== demo WITHOUT the change" >> $LOG
cargo test --offline --test seeded_demo >> $LOG 2>&1; R_CLEAN=$?
git apply $OUT/patch.diff >> $LOG 2>&1; R_APPLY=$?
echo "== demo WITH the change" >> $LOG
cargo test --offline --test seeded_demo >> $LOG 2>&1; R_MUT=$?
rm tests/seeded_demo.rs
echo "== existing suite WITH the change" >> $LOG
cargo test --workspace --no-fail-fast --offline >> $LOG 2>&1; R_SUITE=$?
echo "RESULT name=$NAME apply=$R_APPLY demo_clean=$R_CLEAN demo_mutant=$R_MUT suite_mutant=$R_SUITE" | tee -a $LOG
cd /; git -C /repo worktree remove --force $SCR
