"""Non-Kani verification units (ESC encoder, syntactic side conditions) and per-property assumption text."""
import os

VERIF = os.path.dirname(os.path.dirname(os.path.abspath(__file__)))

COMMON_ASSUMPTIONS = [
    "Bounds are exactly those listed per sample; nothing outside them is claimed (bounded verification, not a proof).",
    "Unwinding assertions are on: a loop bound that is too small is reported as inconclusive, never as a pass.",
    "Error messages are not modelled (color-eyre shim); error paths are.",
]


def setup(log):
    return 0


def run_unit(u, overlay_dir, tier, log):
    raise NotImplementedError(u["kind"])


def esc_replay(path, txt, log):
    log("ESC replay not built yet")
    return 2


def assumptions_for(prop, units):
    out = list(COMMON_ASSUMPTIONS)
    for u in units:
        for s in u.get("stubs", []):
            t = "stub in force for some queries: " + s
            if t not in out:
                out.append(t)
    return out
