"""Non-Kani verification units (ESC encoder, syntactic side conditions of the stubs/assumptions) and
per-property assumption text."""
import os
import re
import subprocess
import time

import esc
import kani_run

VERIF = os.path.dirname(os.path.dirname(os.path.abspath(__file__)))

COMMON_ASSUMPTIONS = [
    "Bounds are exactly those listed per sample; nothing outside them is claimed (bounded verification, not a proof).",
    "Unwinding assertions are on: a loop bound that is too small is reported as inconclusive, never as a pass.",
    "Error messages are not modelled (color-eyre shim); error paths are.",
    "A1: no guard or stack effect reads the payload of a simulated object (only its variant) — re-checked syntactically on every run by unit side_a1_payload_free.",
    "Composition of the layered contracts (GUARD/STEP -> EMIT -> TAIL/HEAD) is a paper induction over solver-checked lemmas (DESIGN.md §3.3).",
]


def setup(log):
    # the committed reference table must equal a fresh generation from this CPython
    import tempfile
    gen = os.path.join(VERIF, "oracle", "gen_ref_table.py")
    with tempfile.NamedTemporaryFile("w", suffix=".rs", delete=False) as fh:
        tmp = fh.name
    try:
        subprocess.run(["/usr/bin/python3", gen, tmp], check=True)
        a = open(tmp).read()
        b = open(os.path.join(VERIF, "harness", "kani", "ref_table.rs")).read()
        if a != b:
            log("setup: harness/kani/ref_table.rs differs from a fresh generation from pickletools")
            return 2
    finally:
        os.unlink(tmp)
    for tool in ("z3-new", "cvc5"):
        r = subprocess.run([tool, "--version"], capture_output=True, text=True)
        if r.returncode != 0:
            log("setup: %s not runnable" % tool)
            return 2
    log("setup: reference table matches CPython pickletools; z3-new and cvc5 present")
    return 0


def _res(verdict, reasons=(), **kw):
    d = {"verdict": verdict, "reasons": list(reasons), "time_s": kw.pop("time_s", 0), "solver_s": kw.pop("solver_s", 0)}
    d.update(kw)
    return d


def _native_cases(overlay_dir, cases, log_name):
    """run the native esc_native_cases test in the overlay on the given cases -> (ok, log text)"""
    path = os.path.join(overlay_dir, "esc_cases.txt")
    with open(path, "w") as fh:
        for arm, inp, exp in cases:
            fh.write("%s x%s %s\n" % ("S" if arm == "String" else "V", inp.hex(), ("x" + exp.hex()) if exp is not None else "-"))
    env = kani_run._env()
    env["CARGO_TARGET_DIR"] = os.path.join(kani_run.CACHE, "playback-target")
    env["VERIF_ESC_CASES"] = path
    logp = os.path.join(overlay_dir, log_name)
    with open(logp, "w") as lf:
        subprocess.run(["cargo", "kani", "playback", "-Z", "concrete-playback", "--", "esc_native_cases", "--nocapture"],
                       cwd=overlay_dir, env=env, stdout=lf, stderr=subprocess.STDOUT, timeout=1200)
    txt = open(logp, errors="replace").read()
    return ("test result: ok. 1 passed" in txt), txt


def _esc_cases_line_fix(cases):
    return cases


def run_esc(u, overlay_dir, tier, log):
    t0 = time.time()
    arm = u["arm"]
    L = 6 if tier == "quick" else 8
    lo, hi = (0x00, 0x7f) if arm == "String" else (0x20, 0x7e)
    src = open(os.path.join(overlay_dir, "src", "generator", "emission.rs")).read()
    try:
        stages, prefix, suffix = esc.parse_arm(src, arm)
        # (1) validate the translator against the compiled code on ~200 strings
        alphabet = [0x5c, 0x27, 0x0a, 0x0d, 0x09, 0x61] if arm == "String" else [0x5c, 0x27, 0x75, 0x55, 0x61, 0x20]
        strs = [b""] + [bytes([a]) for a in alphabet] + [bytes([a, b]) for a in alphabet for b in alphabet]
        strs += [bytes([a, b, c]) for a in alphabet[:5] for b in alphabet[:5] for c in alphabet[:5]]
        strs += [b"\\x41", b"it's", b"a\\'b", b"\\\\", b"\\u0041", b"tab\there"] if arm == "String" else [b"\\u0041", b"\\\\u0041", b"a\\b"]
        if arm != "String":
            strs = [x for x in strs if all(0x20 <= c <= 0x7e for c in x)]
        opb = bytes([0x53 if arm == "String" else 0x56])
        cases = [(arm, x, opb + esc.interpret(stages, prefix, suffix, x)) for x in strs]
        ok, txt = _native_cases(overlay_dir, cases, "esc_validate_%s.log" % arm)
        if not ok:
            return _res(kani_run.INCONCLUSIVE, ["ESC translator validation failed: the parsed chain disagrees with the compiled code "
                                                 "(or the native test could not run): " + txt[-400:]], time_s=time.time() - t0)
        # (2) the solver query
        r = esc.decide(src, arm, L, lo, hi)
    except esc.EscError as e:
        return _res(kani_run.INCONCLUSIVE, ["ESC cannot parse the escaping chain of the %s arm: %s" % (arm, e)], time_s=time.time() - t0)
    info = r["info"]
    base = dict(time_s=round(time.time() - t0, 2), solver_s=round(info["z3_s"] + info["cvc5_s"], 2), esc=info,
                translator_cases_validated=len(cases), checks_total=2)
    if r["verdict"] == "ok":
        return _res(kani_run.OK, **base)
    if r["verdict"] == "inconclusive":
        return _res(kani_run.INCONCLUSIVE, ["solvers disagree or did not answer: z3=%s cvc5=%s" % (info["z3"], info["cvc5"])], **base)
    w = r["witness"]
    # (3) replay the witness natively against the real emit_string
    ok, txt = _native_cases(overlay_dir, [(arm, w, None)], "esc_replay_%s.log" % arm)
    reasons = ["%s arm emits a malformed argument for the string %r (solver witness)" % (arm.upper(), w)]
    if "ESC-REPRODUCED" in txt:
        d = os.path.join(VERIF, "replays", u["props"][0])
        os.makedirs(d, exist_ok=True)
        path = os.path.join(d, u["name"] + ".esc")
        with open(path, "w") as fh:
            fh.write("// VERIF-REPLAY property=%s harness=%s file=esc\n" % (u["props"][0], u["name"]))
            fh.write("// %s arm of emit_string: input string (hex) whose escaped form is not one well-formed lexeme\n" % arm)
            fh.write("%s x%s -\n" % ("S" if arm == "String" else "V", w.hex()))
        return _res(kani_run.FAIL, reasons, replay=path, **base)
    return _res(kani_run.FAIL, reasons + ["not reproduced natively: " + txt[-300:]], **base)


def esc_replay(path, txt, log):
    import overlay
    import shutil
    m = re.search(r"property=(\S+) harness=(\S+)", txt)
    prop = m.group(1)
    line = [l for l in txt.splitlines() if re.match(r"^[SV] x[0-9a-f]* -$", l)]
    if not line:
        log("no case in replay file")
        return 2
    arm, hx, _ = line[0].split(" ")
    ov = os.path.join(os.environ.get("VERIF_SCRATCH", "/var/tmp"), "pfv.%d" % os.getpid())
    try:
        overlay.build(ov)
        ok, out = _native_cases(ov, [("String" if arm == "S" else "Unicode", bytes.fromhex(hx[1:]), None)], "esc_replay.log")
        if "ESC-REPRODUCED" in out:
            log("replay against /repo's current tree: reproduced")
            log("VIOLATION property=%s replay=%s" % (prop, path))
            return 1
        log("replay against /repo's current tree: %s" % ("not reproduced" if ok else "error"))
        return 0 if ok else 2
    finally:
        shutil.rmtree(ov, ignore_errors=True)


# ---- syntactic side conditions --------------------------------------------------------------------------

def run_side(u, overlay_dir, tier, log):
    t0 = time.time()
    gen = os.path.join(overlay_dir, "src", "generator")
    name = u["name"]
    problems = []
    if name == "side_a1_payload_free":
        # A1: guards (validation.rs, utils.rs) never destructure a payload; effects (stack_ops.rs) only at the listed sites
        pat = re.compile(r"StackObject::(Int|Float|Bool|Bytes|String|ByteArray|List|Tuple|Dict|Set|FrozenSet|Extension)\(\s*(?:ref\s+)?(?:mut\s+)?([a-z]\w*)")
        for f in ("validation.rs", "utils.rs"):
            for n, line in enumerate(open(os.path.join(gen, f)), 1):
                for m in pat.finditer(line):
                    if m.group(2) != "_":
                        problems.append("%s:%d binds the payload of StackObject::%s in a guard" % (f, n, m.group(1)))
        allowed = {"List": ("list",), "Dict": ("dict",), "Set": ("set",), "String": ("module_str", "name_str"),
                   "Callable": ("inner",), "Instance": ("inst",)}
        pat2 = re.compile(r"StackObject::(\w+)\(\s*(?:ref\s+)?(?:mut\s+)?([a-z]\w*)\s*\)")
        src = open(os.path.join(gen, "stack_ops.rs")).read()
        body = src[src.index("pub(super) fn process_stack_ops"):]
        for m in pat2.finditer(body):
            v, b = m.group(1), m.group(2)
            if b == "_" or b in allowed.get(v, ()):
                continue
            # constructor calls such as StackObject::Int(value) are fine: they appear as expressions after `push(` / `=`
            ctx = body[max(0, m.start() - 40):m.start()]
            if re.search(r"(push\(|=\s*|\(\s*|Some\()\s*$", ctx) and "if let" not in ctx and "matches!" not in ctx:
                continue
            problems.append("stack_ops.rs binds the payload of StackObject::%s as `%s` in an effect arm" % (v, b))
    elif name == "side_replace_char_patterns":
        for f in os.listdir(gen):
            if not f.endswith(".rs"):
                continue
            for n, line in enumerate(open(os.path.join(gen, f)), 1):
                for m in re.finditer(r"\.replace\(\s*([^,]+),", line):
                    if not re.match(r"^'(\\.|[^'\\])'$", m.group(1).strip()):
                        problems.append("%s:%d .replace( with a non-char-literal pattern: %s" % (f, n, m.group(1).strip()))
    elif name == "data_stdlib_scan":
        p = os.path.join(overlay_dir, "data", "stdlib_complete.txt")
        n = 0
        longest = 0
        for i, line in enumerate(open(p, "rb"), 1):
            s = line.rstrip(b"\n")
            n += 1
            longest = max(longest, len(s))
            if not s or any(c < 0x21 or c > 0x7e for c in s) or b"\\" in s:
                problems.append("data/stdlib_complete.txt:%d is empty or not printable backslash-free ASCII" % i)
                break
            mod, _, attr = s.partition(b".")
            if not mod:
                problems.append("data/stdlib_complete.txt:%d has an empty module name" % i)
                break
        if longest > 100:
            problems.append("a name line is longer than 100 bytes (%d)" % longest)
        # the split itself: splitn(2,'.') of a non-empty line gives a non-empty first piece unless the line starts with '.'
        src = open(os.path.join(gen, "emission.rs")).read()
        if not re.search(r'format!\("\{\}\\n\{\}\\n",\s*module,\s*attr\)', src):
            problems.append("get_random_module no longer formats \"{}\\n{}\\n\" from (module, attr): module_contract must be re-derived")
        return _res(kani_run.OK if not problems else kani_run.INCONCLUSIVE, problems, time_s=round(time.time() - t0, 2),
                    checks_total=n, lines=n, longest=longest)
    elif name == "oracle_vs_cpython":
        seed = int(os.environ.get("VERIF_SEED", "0") or 0) + 1
        n = 4000 if tier == "quick" else 20000
        cases = os.path.join(overlay_dir, "oracle_cases.txt")
        subprocess.run(["/usr/bin/python3", os.path.join(VERIF, "oracle", "validate_ref.py"), cases, str(n), str(seed)], check=True)
        env = kani_run._env()
        env["CARGO_TARGET_DIR"] = os.path.join(kani_run.CACHE, "playback-target")
        env["VERIF_ORACLE_CASES"] = cases
        logp = os.path.join(overlay_dir, "oracle.log")
        with open(logp, "w") as lf:
            subprocess.run(["cargo", "kani", "playback", "-Z", "concrete-playback", "--", "oracle_cases", "--nocapture"],
                           cwd=overlay_dir, env=env, stdout=lf, stderr=subprocess.STDOUT, timeout=1800)
        txt = open(logp, errors="replace").read()
        m = re.search(r"oracle_cases: (\d+) cases, (\d+) skipped \(too deep\), (\d+) lexer mismatches, (\d+) machine mismatches", txt)
        if not m or "test result: ok. 1 passed" not in txt:
            return _res(kani_run.INCONCLUSIVE, ["the reference lexer/machine disagrees with CPython's pickletools (or the native test could not run): "
                                                 + (m.group(0) if m else txt[-300:])], time_s=round(time.time() - t0, 2))
        return _res(kani_run.OK, [], time_s=round(time.time() - t0, 2), checks_total=int(m.group(1)), oracle=m.group(0))
    else:
        return _res(kani_run.INCONCLUSIVE, ["unknown side condition " + name])
    # a broken side condition means a stub/assumption no longer matches the code: machinery, not a violation
    return _res(kani_run.OK if not problems else kani_run.INCONCLUSIVE, problems[:5], time_s=round(time.time() - t0, 2), checks_total=1)


def run_unit(u, overlay_dir, tier, log):
    if u["kind"] == "esc":
        return run_esc(u, overlay_dir, tier, log)
    if u["kind"] == "side":
        return run_side(u, overlay_dir, tier, log)
    return _res(kani_run.INCONCLUSIVE, ["unknown unit kind " + u["kind"]])


def assumptions_for(prop, units):
    out = list(COMMON_ASSUMPTIONS)
    for u in units:
        for s in u.get("stubs", []):
            t = "stub/contract in force for some queries: " + s
            if t not in out:
                out.append(t)
    return out
