"""Assemble the verification overlay: a scratch copy of /repo's *current working tree* with the
Kani harness module grafted into `crate::generator` (DESIGN.md §2.1).  Nothing is written to /repo."""
import hashlib
import os
import shutil
import subprocess
import sys

VERIF = os.path.dirname(os.path.dirname(os.path.abspath(__file__)))
REPO = os.environ.get("VERIF_REPO", "/repo")
EXCLUDES = ["target", ".git", "fuzz", "python", ".github", "scripts"]

LIB_PRELUDE = "#![cfg_attr(kani, feature(allocator_api, pattern))]\n#![cfg_attr(kani, recursion_limit = \"512\")]\n"
MOD_GRAFT = "\n#[cfg(kani)]\npub(crate) mod verif_kani;\n"


class OverlayError(Exception):
    pass


def _hash_tree(h, root, rel_ok=lambda r: True):
    for d, dirs, files in sorted(os.walk(root)):
        dirs.sort()
        for f in sorted(files):
            p = os.path.join(d, f)
            r = os.path.relpath(p, root)
            if not rel_ok(r):
                continue
            h.update(r.encode())
            h.update(b"\0")
            with open(p, "rb") as fh:
                h.update(fh.read())
            h.update(b"\0")


def tree_key():
    """SHA-256 over every input of the encoding: /repo sources, manifest, lock, data, the harnesses and
    shims.  Recomputed from the current tree on every run, so an edited source never hits a stale verdict."""
    h = hashlib.sha256()
    for sub in ("src", "data"):
        _hash_tree(h, os.path.join(REPO, sub))
    for f in ("Cargo.toml", "Cargo.lock"):
        with open(os.path.join(REPO, f), "rb") as fh:
            h.update(fh.read())
    _hash_tree(h, os.path.join(VERIF, "harness"))
    _hash_tree(h, os.path.join(VERIF, "shims"), lambda r: not r.startswith("color-eyre/target"))
    return h.hexdigest()


def build(dest):
    if os.path.exists(dest):
        shutil.rmtree(dest)
    os.makedirs(dest)
    cmd = ["rsync", "-a"] + ["--exclude=/%s" % e for e in EXCLUDES] + [REPO + "/", dest + "/"]
    r = subprocess.run(cmd, capture_output=True, text=True)
    if r.returncode != 0:
        raise OverlayError("rsync failed: " + r.stderr)
    gen = os.path.join(dest, "src", "generator")
    modrs = os.path.join(gen, "mod.rs")
    librs = os.path.join(dest, "src", "lib.rs")
    cargo = os.path.join(dest, "Cargo.toml")
    for p in (modrs, librs, cargo):
        if not os.path.isfile(p):
            raise OverlayError("missing %s in /repo: cannot graft the harness module" % p)
    shutil.copytree(os.path.join(VERIF, "harness", "kani"), os.path.join(gen, "verif_kani"))
    with open(modrs, "a") as fh:
        fh.write(MOD_GRAFT)
    with open(librs) as fh:
        body = fh.read()
    with open(librs, "w") as fh:
        fh.write(LIB_PRELUDE + body)
    # the memo table's type can be swapped for the association-list model (feature verif_modelmap, MEMO-GET units)
    staters = os.path.join(dest, "src", "state.rs")
    with open(staters) as fh:
        st = fh.read()
    IMPORT = "use std::collections::HashMap;\n"
    if st.count(IMPORT) != 1 or "HashMap<usize, StackObjectRef>" not in st:
        raise OverlayError("src/state.rs no longer declares the memo as HashMap<usize, StackObjectRef> with a plain std import: "
                           "the model-map graft must be re-derived")
    st = st.replace(IMPORT, '#[cfg(not(feature = "verif_modelmap"))]\nuse std::collections::HashMap;\n'
                            '#[cfg(feature = "verif_modelmap")]\nuse crate::generator::verif_kani::modelmap::ModelMap as HashMap;\n')
    with open(staters, "w") as fh:
        fh.write(st)
    with open(cargo) as fh:
        ct = fh.read()
    if "\n[features]\n" not in ct:
        raise OverlayError("Cargo.toml has no [features] section to extend")
    ct = ct.replace("\n[features]\n", "\n[features]\nverif_modelmap = []\n", 1)
    with open(cargo, "w") as fh:
        fh.write(ct)
    with open(cargo, "a") as fh:
        fh.write('\n[patch.crates-io]\ncolor-eyre = { path = "%s/shims/color-eyre" }\n' % VERIF)
        fh.write('\n[workspace]\n')
    # make the overlay its own git-less, network-less workspace
    os.makedirs(os.path.join(dest, ".cargo"), exist_ok=True)
    with open(os.path.join(dest, ".cargo", "config.toml"), "w") as fh:
        fh.write("[net]\noffline = true\n")
    return dest


if __name__ == "__main__":
    print(build(sys.argv[1]))
    print(tree_key())
