// VERIF-REPLAY property=C16 harness=mutc_offbyone_int_arb file=mutc.rs variant=-
// failed check: [KANI_CHECK_ID_pickle_fuzzer.2144bc5e1feb0391::pickle_fuzzer_36] "mutator result outside its documented contract"
// bounds: OffByOneMutator::mutate_int: wrapping +-1; every argument value; rate symbolic in [0,1]; fuzzer bytes 0..24
// The values below are the SAT solver's assignment to every kani::any() of the harness; the test runs
// the same harness body natively (real std/hashbrown/rand, no stubs) via `cargo kani playback`.
#[test]
fn kani_concrete_playback_mutc_offbyone_int_arb_cbmc() {
    let concrete_vals: Vec<Vec<u8>> = vec![
        vec![0],
        vec![0],
        vec![0],
        vec![0],
        vec![0],
        vec![0],
        vec![0],
        vec![0],
        vec![0],
        vec![0],
        vec![0],
        vec![0],
        vec![0],
        vec![0],
        vec![0],
        vec![0],
        vec![0],
        vec![0],
        vec![0],
        vec![0],
        vec![0],
        vec![0],
        vec![0],
        vec![0],
        vec![16, 0, 0, 0, 0, 0, 0, 0],
        vec![0, 0, 0, 128],
        vec![0, 0, 0, 0, 0, 0, 0, 32]
    ];
    kani::concrete_playback_run(concrete_vals, mutc_offbyone_int_arb);
}
