// VERIF-REPLAY property=C16 harness=mutc_stringlen_bytes_l2 file=mutc.rs variant=-
// failed check: [KANI_CHECK_ID_pickle_fuzzer.2144bc5e1feb0391::pickle_fuzzer_204] "string-length result too long"
// bounds: StringLengthMutator::mutate_bytes on every byte string of length 2: prefix | +1..9 items | doubled; rate symbolic; fuzzer bytes 0..20
// The values below are the SAT solver's assignment to every kani::any() of the harness; the test runs
// the same harness body natively (real std/hashbrown/rand, no stubs) via `cargo kani playback`.
#[test]
fn kani_concrete_playback_mutc_stringlen_bytes_l2_cbmc() {
    let concrete_vals: Vec<Vec<u8>> = vec![
        vec![248],
        vec![248],
        vec![248],
        vec![248],
        vec![248],
        vec![248],
        vec![248],
        vec![248],
        vec![193],
        vec![9],
        vec![248],
        vec![248],
        vec![248],
        vec![248],
        vec![248],
        vec![248],
        vec![248],
        vec![248],
        vec![248],
        vec![248],
        vec![12, 0, 0, 0, 0, 0, 0, 0],
        vec![15],
        vec![255],
        vec![63, 31, 31, 31, 31, 31, 239, 63]
    ];
    kani::concrete_playback_run(concrete_vals, mutc_stringlen_bytes_l2);
}
