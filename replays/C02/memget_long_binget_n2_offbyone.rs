// VERIF-REPLAY property=C02 harness=memget_long_binget_n2_offbyone file=memget.rs variant=modelmap
// failed check: [KANI_CHECK_ID_pickle_fuzzer.aeb49b551bf25cf1::pickle_fuzzer_48] "GET-family opcode names a memo index that was never stored"
// bounds: LONG_BINGET on a memo of 2 entries (keys 0..1), mutator offbyone at symbolic rate in [0,1], every protocol that has the opcode, fuzzer bytes 0..20, every iteration order of the table
// The values below are the SAT solver's assignment to every kani::any() of the harness; the test runs
// the same harness body natively (real std/hashbrown/rand, no stubs) via `cargo kani playback`.
#[test]
fn kani_concrete_playback_memget_long_binget_n2_offbyone_cbmc() {
    let concrete_vals: Vec<Vec<u8>> = vec![
        vec![5],
        vec![0, 0, 0, 0, 0, 0, 240, 63],
        vec![255],
        vec![253],
        vec![253],
        vec![253],
        vec![253],
        vec![253],
        vec![253],
        vec![253],
        vec![253],
        vec![253],
        vec![253],
        vec![253],
        vec![253],
        vec![253],
        vec![253],
        vec![253],
        vec![253],
        vec![253],
        vec![253],
        vec![253],
        vec![18, 0, 0, 0, 0, 0, 0, 0],
        vec![1, 0, 0, 0, 0, 0, 0, 0]
    ];
    kani::concrete_playback_run(concrete_vals, memget_long_binget_n2_offbyone);
}
