// VERIF-REPLAY property=C02 harness=memget_binget_n2_safeset file=memget.rs variant=modelmap
// failed check: [KANI_CHECK_ID_pickle_fuzzer.aeb49b551bf25cf1::pickle_fuzzer_241] "GET-family opcode names a memo index that was never stored"
// bounds: BINGET on a memo of 2 entries (keys 0..1), mutator safeset at symbolic rate in [0,1], every protocol that has the opcode, fuzzer bytes 0..20, every iteration order of the table
// The values below are the SAT solver's assignment to every kani::any() of the harness; the test runs
// the same harness body natively (real std/hashbrown/rand, no stubs) via `cargo kani playback`.
#[test]
fn kani_concrete_playback_memget_binget_n2_safeset_cbmc() {
    let concrete_vals: Vec<Vec<u8>> = vec![
        vec![1],
        vec![1, 0, 0, 0, 0, 0, 0, 0],
        vec![3],
        vec![0],
        vec![8],
        vec![0],
        vec![0],
        vec![0],
        vec![0],
        vec![0],
        vec![0],
        vec![0],
        vec![0],
        vec![0],
        vec![0],
        vec![0],
        vec![0],
        vec![0],
        vec![0],
        vec![0],
        vec![0],
        vec![0],
        vec![12, 0, 0, 0, 0, 0, 0, 0],
        vec![1, 0, 0, 0, 0, 0, 0, 0]
    ];
    kani::concrete_playback_run(concrete_vals, memget_binget_n2_safeset);
}
