// VERIF-REPLAY property=C10 harness=guard_all_d1 file=guard.rs variant=-
// failed check: generator::verif_kani::guard::guard_all_d1.assertion.214
// bounds: 31 opcodes (depth 0: all 68; 1-2: every opcode whose guard reads the stack or memo; 3: MARK-slice and 3-operand opcodes) at stack depth 1 in one query: all 18 StackObject variants per slot, one optional DUP-style alias pair, all flag values, memo size m symbolic (m <= 300); same assertions as the per-opcode instances
// The values below are the SAT solver's assignment to every kani::any() of the harness; the test runs
// the same harness body natively (real std/hashbrown/rand, no stubs) via `cargo kani playback`.
#[test]
fn kani_concrete_playback_guard_all_d1_cbmc() {
    let concrete_vals: Vec<Vec<u8>> = vec![
        vec![4],
        vec![0],
        vec![0],
        vec![0],
        vec![2],
        vec![6],
        vec![0, 0, 0, 0, 0, 0, 0, 0],
        vec![16],
        vec![16],
        vec![16],
        vec![16]
    ];
    kani::concrete_playback_run(concrete_vals, guard_all_d1);
}
