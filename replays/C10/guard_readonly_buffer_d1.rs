// VERIF-REPLAY property=C10 harness=guard_readonly_buffer_d1 file=guard.rs
// failed check: ""buffer opcode enabled without the opt-in flag""
// bounds: READONLY_BUFFER at stack depth 1: all 18 StackObject variants per slot, one optional DUP-style alias pair, all flag values, memo size m symbolic (m <= 300)
// The values below are the SAT solver's assignment to every kani::any() of the harness; the test runs
// the same harness body natively (real std/hashbrown/rand, no stubs) via `cargo kani playback`.
#[test]
fn kani_concrete_playback_guard_readonly_buffer_d1_4597092880945977092() {
    let concrete_vals: Vec<Vec<u8>> = vec![
        // 5
        vec![5],
        // 1
        vec![1],
        // 0
        vec![0],
        // 1
        vec![1],
        // 18446744073709551615ul
        vec![255, 255, 255, 255, 255, 255, 255, 255],
        // 6
        vec![6],
        // 300ul
        vec![44, 1, 0, 0, 0, 0, 0, 0],
        // 16
        vec![16],
        // 16
        vec![16],
        // 17
        vec![17],
        // 16
        vec![16],
    ];
    kani::concrete_playback_run(concrete_vals, guard_readonly_buffer_d1);
}
