// VERIF-REPLAY property=C05 harness=purity_crossgen_int_p2_then_p0 file=purity.rs variant=-
// failed check: [KANI_CHECK_ID_pickle_fuzzer.2144bc5e1feb0391::pickle_fuzzer_230] "a protocol-0 generator emitted an integer opcode outside protocol 0 after another generator ran (state carried between generators)"
// bounds: a protocol-2 generator emits an integer, then a fresh protocol-0 generator does (2 fuzzer bytes each): the second opcode is INT or LONG (no process-wide state carried between generators)
// The values below are the SAT solver's assignment to every kani::any() of the harness; the test runs
// the same harness body natively (real std/hashbrown/rand, no stubs) via `cargo kani playback`.
#[test]
fn kani_concrete_playback_purity_crossgen_int_p2_then_p0_cbmc() {
    let concrete_vals: Vec<Vec<u8>> = vec![
        vec![223],
        vec![128],
        vec![223],
        vec![128]
    ];
    kani::concrete_playback_run(concrete_vals, purity_crossgen_int_p2_then_p0);
}
