// VERIF-REPLAY property=C01 harness=guardm_setitems_k3 file=guard.rs
// failed check: ""enabled opcode gets an operand of the wrong kind""
// bounds: SETITEMS on the shape [x, MARK, 3 items]: x any of the 18 variants, items in {NONE, TUPLE, CALLABLE, MARK}; flags symbolic
// The values below are the SAT solver's assignment to every kani::any() of the harness; the test runs
// the same harness body natively (real std/hashbrown/rand, no stubs) via `cargo kani playback`.
#[test]
fn kani_concrete_playback_guardm_setitems_k3_198552022613779705() {
    let concrete_vals: Vec<Vec<u8>> = vec![
        // 5
        vec![5],
        // 1
        vec![1],
        // 1
        vec![1],
        // 1
        vec![1],
        // 9
        vec![9],
        // 2
        vec![2],
        // 2
        vec![2],
        // 2
        vec![2],
    ];
    kani::concrete_playback_run(concrete_vals, guardm_setitems_k3);
}
