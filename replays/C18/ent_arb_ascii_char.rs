// VERIF-REPLAY property=C18 harness=ent_arb_ascii_char file=ent.rs
// failed check: "assertion failed: c >= 0x20 && c <= 0x7e"
// bounds: fuzzer bytes: every string of length 0..16 (symbolic content and length)
// The values below are the SAT solver's assignment to every kani::any() of the harness; the test runs
// the same harness body natively (real std/hashbrown/rand, no stubs) via `cargo kani playback`.
#[test]
fn kani_concrete_playback_ent_arb_ascii_char_15433066820353144865() {
    let concrete_vals: Vec<Vec<u8>> = vec![
        // 191
        vec![191],
        // 255
        vec![255],
        // 255
        vec![255],
        // 255
        vec![255],
        // 255
        vec![255],
        // 255
        vec![255],
        // 255
        vec![255],
        // 255
        vec![255],
        // 255
        vec![255],
        // 255
        vec![255],
        // 255
        vec![255],
        // 255
        vec![255],
        // 255
        vec![255],
        // 255
        vec![255],
        // 255
        vec![255],
        // 255
        vec![255],
        // 2ul
        vec![2, 0, 0, 0, 0, 0, 0, 0],
    ];
    kani::concrete_playback_run(concrete_vals, ent_arb_ascii_char);
}
