// VERIF-REPLAY property=C18 harness=ent_arb_bytes_1 file=ent.rs variant=-
// failed check: generator::verif_kani::ent::ent_arb_bytes_1.assertion.1
// bounds: len 1; fuzzer bytes: every string of length 0..16 (symbolic content and length)
// The values below are the SAT solver's assignment to every kani::any() of the harness; the test runs
// the same harness body natively (real std/hashbrown/rand, no stubs) via `cargo kani playback`.
#[test]
fn kani_concrete_playback_ent_arb_bytes_1_cbmc() {
    let concrete_vals: Vec<Vec<u8>> = vec![
        vec![0, 0, 0, 0, 0, 0, 0, 0]
    ];
    kani::concrete_playback_run(concrete_vals, ent_arb_bytes_1);
}
