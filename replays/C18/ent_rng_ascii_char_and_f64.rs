// VERIF-REPLAY property=C18 harness=ent_rng_ascii_char_and_f64 file=ent.rs
// failed check: "assertion failed: c >= 0x20 && c <= 0x7e"
// bounds: all PRNG word streams
// The values below are the SAT solver's assignment to every kani::any() of the harness; the test runs
// the same harness body natively (real std/hashbrown/rand, no stubs) via `cargo kani playback`.
#[test]
fn kani_concrete_playback_ent_rng_ascii_char_and_f64_2894764130899922815() {
    let concrete_vals: Vec<Vec<u8>> = vec![
        // 4250228053
        vec![85, 85, 85, 253],
        // 4294967295
        vec![255, 255, 255, 255],
        // 4294967295
        vec![255, 255, 255, 255],
        // 4294967295
        vec![255, 255, 255, 255],
        // 4294967295
        vec![255, 255, 255, 255],
        // 4294967295
        vec![255, 255, 255, 255],
        // 4294967295
        vec![255, 255, 255, 255],
        // 4294967295
        vec![255, 255, 255, 255],
        // 4294967295
        vec![255, 255, 255, 255],
        // 4294967295
        vec![255, 255, 255, 255],
        // 4294967295
        vec![255, 255, 255, 255],
        // 4294967295
        vec![255, 255, 255, 255],
        // 4294967295
        vec![255, 255, 255, 255],
        // 4294967295
        vec![255, 255, 255, 255],
        // 4294967295
        vec![255, 255, 255, 255],
        // 4294967295
        vec![255, 255, 255, 255],
    ];
    kani::concrete_playback_run(concrete_vals, ent_rng_ascii_char_and_f64);
}
