// VERIF-REPLAY property=C03 harness=guard_stack_global_d2 file=guard.rs variant=-
// failed check: [KANI_CHECK_ID_pickle_fuzzer.2144bc5e1feb0391::pickle_fuzzer_220] "enabled opcode gets an operand of the wrong kind"
// bounds: STACK_GLOBAL at stack depth 2: all 18 StackObject variants per slot, one optional DUP-style alias pair, all flag values, memo size m symbolic (m <= 300)
// The values below are the SAT solver's assignment to every kani::any() of the harness; the test runs
// the same harness body natively (real std/hashbrown/rand, no stubs) via `cargo kani playback`.
#[test]
fn kani_concrete_playback_guard_stack_global_d2_cbmc() {
    let concrete_vals: Vec<Vec<u8>> = vec![
        vec![4],
        vec![0],
        vec![0],
        vec![0],
        vec![1],
        vec![0, 0, 0, 0, 0, 0, 0, 0],
        vec![14],
        vec![14],
        vec![44, 1, 0, 0, 0, 0, 0, 0],
        vec![16],
        vec![17],
        vec![16],
        vec![16]
    ];
    kani::concrete_playback_run(concrete_vals, guard_stack_global_d2);
}
