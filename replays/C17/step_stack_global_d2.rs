// VERIF-REPLAY property=C17 harness=step_stack_global_d2 file=step.rs variant=-
// failed check: [KANI_CHECK_ID_pickle_fuzzer.2144bc5e1feb0391::pickle_fuzzer_672] "simulated stack depth differs from the reference machine"
// bounds: STACK_GLOBAL from every state of depth 2 in which can_emit holds: all 18 StackObject variants per slot, one optional DUP-style alias pair, all flag values, memo size m symbolic (m <= 4); well-formed argument bytes (a_none)
// The values below are the SAT solver's assignment to every kani::any() of the harness; the test runs
// the same harness body natively (real std/hashbrown/rand, no stubs) via `cargo kani playback`.
#[test]
fn kani_concrete_playback_step_stack_global_d2_cbmc() {
    let concrete_vals: Vec<Vec<u8>> = vec![
        vec![5],
        vec![1],
        vec![1],
        vec![1],
        vec![1],
        vec![255, 255, 255, 255, 255, 255, 255, 255],
        vec![5],
        vec![17],
        vec![4, 0, 0, 0, 0, 0, 0, 0],
        vec![17],
        vec![17],
        vec![17],
        vec![17]
    ];
    kani::concrete_playback_run(concrete_vals, step_stack_global_d2);
}
