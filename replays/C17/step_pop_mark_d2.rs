// VERIF-REPLAY property=C17 harness=step_pop_mark_d2 file=step.rs
// failed check: ""simulated stack depth differs from the reference machine""
// bounds: POP_MARK from every state of depth 2 in which can_emit holds: all 18 StackObject variants per slot, one optional DUP-style alias pair, all flag values, memo size m symbolic (m <= 4); well-formed argument bytes (a_none)
// The values below are the SAT solver's assignment to every kani::any() of the harness; the test runs
// the same harness body natively (real std/hashbrown/rand, no stubs) via `cargo kani playback`.
#[test]
fn kani_concrete_playback_step_pop_mark_d2_12267314929905390697() {
    let concrete_vals: Vec<Vec<u8>> = vec![
        // 5
        vec![5],
        // 1
        vec![1],
        // 1
        vec![1],
        // 1
        vec![1],
        // 18446744073709551615ul
        vec![255, 255, 255, 255, 255, 255, 255, 255],
        // 12
        vec![12],
        // 12
        vec![12],
        // 4ul
        vec![4, 0, 0, 0, 0, 0, 0, 0],
        // 17
        vec![17],
        // 16
        vec![16],
        // 17
        vec![17],
        // 17
        vec![17],
    ];
    kani::concrete_playback_run(concrete_vals, step_pop_mark_d2);
}
