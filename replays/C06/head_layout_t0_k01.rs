// VERIF-REPLAY property=C06 harness=head_layout_t0_k01 file=head.rs
// failed check: ""output is header [+ FRAME] + body + tail + STOP and nothing else""
// bounds: every protocol 0..5; fuzzer bytes: every string of length 0..2; T=0, tail contract appends 1 arbitrary byte
// The values below are the SAT solver's assignment to every kani::any() of the harness; the test runs
// the same harness body natively (real std/hashbrown/rand, no stubs) via `cargo kani playback`.
#[test]
fn kani_concrete_playback_head_layout_t0_k01_13108209808241190898() {
    let concrete_vals: Vec<Vec<u8>> = vec![
        // 2
        vec![2],
        // 255
        vec![255],
        // 255
        vec![255],
        // 2ul
        vec![2, 0, 0, 0, 0, 0, 0, 0],
        // 149
        vec![149],
    ];
    kani::concrete_playback_run(concrete_vals, head_layout_t0_k01);
}
