// VERIF-REPLAY property=C12 harness=table_complete_p3 file=table.rs
// failed check: ""an opcode of the protocol's vocabulary is missing from the table""
// bounds: protocol 3: every CPython opcode with proto <= P (symbolic index) is listed
// The values below are the SAT solver's assignment to every kani::any() of the harness; the test runs
// the same harness body natively (real std/hashbrown/rand, no stubs) via `cargo kani playback`.
#[test]
fn kani_concrete_playback_table_complete_p3_2147091859293898417() {
    let concrete_vals: Vec<Vec<u8>> = vec![
        // 17ul
        vec![17, 0, 0, 0, 0, 0, 0, 0],
    ];
    kani::concrete_playback_run(concrete_vals, table_complete_p3);
}
