// VERIF-REPLAY property=C09 harness=step_build_d2 file=step.rs
// failed check: "This is a placeholder message; Kani doesn't support message formatted at runtime"
// bounds: BUILD from every state of depth 2 in which can_emit holds: all 18 StackObject variants per slot, one optional DUP-style alias pair, all flag values, memo size m symbolic (m <= 4); well-formed argument bytes (a_none)
// The values below are the SAT solver's assignment to every kani::any() of the harness; the test runs
// the same harness body natively (real std/hashbrown/rand, no stubs) via `cargo kani playback`.
#[test]
fn kani_concrete_playback_step_build_d2_7370305192006155072() {
    let concrete_vals: Vec<Vec<u8>> = vec![
        // 5
        vec![5],
        // 1
        vec![1],
        // 1
        vec![1],
        // 1
        vec![1],
        // 0ul
        vec![0, 0, 0, 0, 0, 0, 0, 0],
        // 14
        vec![14],
        // 8
        vec![8],
        // 4ul
        vec![4, 0, 0, 0, 0, 0, 0, 0],
        // 16
        vec![16],
        // 16
        vec![16],
        // 16
        vec![16],
        // 16
        vec![16],
    ];
    kani::concrete_playback_run(concrete_vals, step_build_d2);
}
