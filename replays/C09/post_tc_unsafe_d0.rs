// VERIF-REPLAY property=C09 harness=post_tc_unsafe_d0 file=mutc.rs variant=-
// failed check: <usize as std::slice::SliceIndex<[u8]>>::index.assertion.1
// bounds: unsafe TypeConfusion with an empty emission: does nothing; rate symbolic in [0,1]; fuzzer bytes 0..24; earlier output untouched, replacement = exactly one value-pushing lexeme of another kind
// The values below are the SAT solver's assignment to every kani::any() of the harness; the test runs
// the same harness body natively (real std/hashbrown/rand, no stubs) via `cargo kani playback`.
#[test]
fn kani_concrete_playback_post_tc_unsafe_d0_cbmc() {
    let concrete_vals: Vec<Vec<u8>> = vec![
        vec![255],
        vec![7],
        vec![0],
        vec![0],
        vec![0],
        vec![8],
        vec![0],
        vec![0],
        vec![255],
        vec![255],
        vec![255],
        vec![255],
        vec![255],
        vec![255],
        vec![255],
        vec![255],
        vec![255],
        vec![255],
        vec![255],
        vec![255],
        vec![255],
        vec![255],
        vec![255],
        vec![255],
        vec![8, 0, 0, 0, 0, 0, 0, 0],
        vec![1, 0, 0, 0, 0, 0, 192, 62]
    ];
    kani::concrete_playback_run(concrete_vals, post_tc_unsafe_d0);
}
