// VERIF-REPLAY property=C15 harness=firstwins_memo_unsafe_first_r1 file=mutf.rs variant=-
// failed check: [KANI_CHECK_ID_pickle_fuzzer.2144bc5e1feb0391::pickle_fuzzer_355] "rate 1.0: the first applicable mutator (memo-index, unsafe variant) must mutate the memo index"
// bounds: [MemoIndex(unsafe), OffByOne] on a generator whose own unsafe flag is off, rate 1.0, index >= 2000: result < 1000; every value; fuzzer bytes 0..24
// The values below are the SAT solver's assignment to every kani::any() of the harness; the test runs
// the same harness body natively (real std/hashbrown/rand, no stubs) via `cargo kani playback`.
#[test]
fn kani_concrete_playback_firstwins_memo_unsafe_first_r1_cbmc() {
    let concrete_vals: Vec<Vec<u8>> = vec![
        vec![0],
        vec![16],
        vec![0],
        vec![0],
        vec![0],
        vec![0],
        vec![0],
        vec![0],
        vec![0],
        vec![0],
        vec![0],
        vec![0],
        vec![0],
        vec![0],
        vec![0],
        vec![0],
        vec![0],
        vec![0],
        vec![0],
        vec![0],
        vec![0],
        vec![0],
        vec![0],
        vec![0],
        vec![7, 0, 0, 0, 0, 0, 0, 0],
        vec![255, 255, 255, 255, 255, 255, 255, 127]
    ];
    kani::concrete_playback_run(concrete_vals, firstwins_memo_unsafe_first_r1);
}
