// VERIF-REPLAY property=C11 harness=emit_binput file=emit.rs variant=-
// failed check: [KANI_CHECK_ID_pickle_fuzzer.2144bc5e1feb0391::pickle_fuzzer_1172] "exactly one opcode is appended per emission"
// bounds: BINPUT: MEMO-PUT: every memo size m <= 70000; index emitted must be m; memo size m <= 70000; rate in [0,1]; flags symbolic
// The values below are the SAT solver's assignment to every kani::any() of the harness; the test runs
// the same harness body natively (real std/hashbrown/rand, no stubs) via `cargo kani playback`.
#[test]
fn kani_concrete_playback_emit_binput_cbmc() {
    let concrete_vals: Vec<Vec<u8>> = vec![
        vec![3],
        vec![0],
        vec![0],
        vec![0, 0, 0, 0, 0, 0, 224, 63],
        vec![112, 17, 1, 0, 0, 0, 0, 0],
        vec![4, 0, 0, 0, 0, 0, 0, 0]
    ];
    kani::concrete_playback_run(concrete_vals, emit_binput);
}
