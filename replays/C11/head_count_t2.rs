// VERIF-REPLAY property=C11 harness=head_count_t2 file=head.rs
// failed check: ""T == min_opcodes when max <= min""
// bounds: min,max symbolic in 0..2 (incl. min>max, equal, zero); every protocol; fuzzer bytes 0..2; contracts append nothing
// The values below are the SAT solver's assignment to every kani::any() of the harness; the test runs
// the same harness body natively (real std/hashbrown/rand, no stubs) via `cargo kani playback`.
#[test]
fn kani_concrete_playback_head_count_t2_16972186270649966671() {
    let concrete_vals: Vec<Vec<u8>> = vec![
        // 4
        vec![4],
        // 2ul
        vec![2, 0, 0, 0, 0, 0, 0, 0],
        // 0ul
        vec![0, 0, 0, 0, 0, 0, 0, 0],
        // 131
        vec![131],
        // 129
        vec![129],
        // 2ul
        vec![2, 0, 0, 0, 0, 0, 0, 0],
    ];
    kani::concrete_playback_run(concrete_vals, head_count_t2);
}
