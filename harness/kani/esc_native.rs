//! Native side of family ESC (not a Kani harness): runs the real, compiled `emit_string` on chosen strings.
//! Used (a) to validate the SMT translator of the `.replace` chains against the compiled code and (b) to replay
//! a solver counterexample.  The string is injected through a `Mutator` whose `mutate_string` returns it.
#![cfg(test)]
use super::ref_lex::*;
use super::ref_table::*;
use crate::generator::source::GenerationSource;
use crate::generator::Generator;
use crate::mutators::Mutator;
use crate::opcodes::OpcodeKind;
use crate::protocol::Version;
use arbitrary::Unstructured;

#[derive(Debug)]
struct Inject(String);
impl Mutator for Inject {
    fn name(&self) -> &str {
        "verif-inject"
    }
    fn mutate_string(&self, _v: String, _s: &mut GenerationSource, _r: f64) -> Option<String> {
        Some(self.0.clone())
    }
}

fn emit(op: OpcodeKind, s: &[u8]) -> Vec<u8> {
    let mut g = Generator::new(Version::V0);
    g.mutators.push(Box::new(Inject(String::from_utf8(s.to_vec()).expect("test strings are ASCII"))));
    let data: [u8; 0] = [];
    let mut u = Unstructured::new(&data);
    let mut src = GenerationSource::Arbitrary(&mut u);
    g.emit_string(op, &mut src).expect("emit_string returns Ok");
    g.output.clone()
}

fn unhex(s: &str) -> Vec<u8> {
    let s = s.strip_prefix('x').expect("hex fields start with x");
    (0..s.len() / 2).map(|i| u8::from_str_radix(&s[2 * i..2 * i + 2], 16).unwrap()).collect()
}

/// cases file: one case per line `S|V x<hex input> x<hex expected output> | -`.
/// With an expected output the real emission must equal it (translator validation); with `-` the real emission
/// must be one well-formed lexeme (counterexample replay: the test FAILS if the real code emits a malformed one).
#[test]
fn esc_native_cases() {
    let path = std::env::var("VERIF_ESC_CASES").expect("VERIF_ESC_CASES");
    let txt = std::fs::read_to_string(path).unwrap();
    let mut n = 0;
    for line in txt.lines() {
        let parts: Vec<&str> = line.split_whitespace().collect();
        if parts.len() != 3 {
            continue;
        }
        let op = if parts[0] == "S" { OpcodeKind::String } else { OpcodeKind::Unicode };
        let input = unhex(parts[1]);
        let out = emit(op, &input);
        if parts[2] != "-" {
            assert_eq!(out, unhex(parts[2]), "translated chain disagrees with the compiled code on input {:?}", input);
        } else {
            let l = lex_one(&out, 0);
            let ok = matches!(l, Some(l) if l.end == out.len());
            assert!(ok, "ESC-REPRODUCED: emitted argument is not one well-formed lexeme for input {:?}: output {:?}", input, out);
        }
        n += 1;
    }
    println!("esc_native_cases: {} cases", n);
}
