//! Model of `std::collections::HashMap` for the memo table only (cargo feature `verif_modelmap`, set by the
//! overlay for the MEMO-GET units): an association list with the API subset the generator uses and a
//! **nondeterministic iteration order** (every rotation of the insertion order, chosen afresh at each `keys()`),
//! which over-approximates hash order.  hashbrown's real table is out of CBMC's reach (one-entry table + one GET
//! emission: no answer in 50 min).  Lookup/insert/len semantics are those of a map; nothing else is modelled.
use std::fmt::Debug;

#[derive(Debug, Clone)]
pub struct ModelMap<K, V> {
    pub items: Vec<(K, V)>,
}

impl<K, V> Default for ModelMap<K, V> {
    fn default() -> Self {
        ModelMap { items: Vec::new() }
    }
}

pub struct Keys<'a, K, V> {
    items: &'a [(K, V)],
    start: usize,
    done: usize,
}

impl<'a, K, V> Iterator for Keys<'a, K, V> {
    type Item = &'a K;
    fn next(&mut self) -> Option<&'a K> {
        let n = self.items.len();
        if self.done >= n {
            return None;
        }
        let mut i = self.start + self.done;
        if i >= n {
            i -= n;
        }
        self.done += 1;
        Some(&self.items[i].0)
    }
}

impl<K: PartialEq + Copy, V> ModelMap<K, V> {
    pub fn new() -> Self {
        Self::default()
    }
    pub fn len(&self) -> usize {
        self.items.len()
    }
    pub fn is_empty(&self) -> bool {
        self.items.is_empty()
    }
    pub fn clear(&mut self) {
        self.items.clear();
    }
    pub fn insert(&mut self, k: K, v: V) -> Option<V> {
        let mut i = 0;
        while i < self.items.len() {
            if self.items[i].0 == k {
                return Some(std::mem::replace(&mut self.items[i].1, v));
            }
            i += 1;
        }
        self.items.push((k, v));
        None
    }
    pub fn get(&self, k: &K) -> Option<&V> {
        let mut i = 0;
        while i < self.items.len() {
            if self.items[i].0 == *k {
                return Some(&self.items[i].1);
            }
            i += 1;
        }
        None
    }
    pub fn contains_key(&self, k: &K) -> bool {
        self.get(k).is_some()
    }
    /// iteration in an arbitrary rotation of insertion order
    pub fn keys(&self) -> Keys<'_, K, V> {
        let n = self.items.len();
        let start: usize = kani::any();
        kani::assume(start < n || (n == 0 && start == 0));
        Keys { items: &self.items, start, done: 0 }
    }
}
