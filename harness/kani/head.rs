//! Family HEAD (C05 header, C06 FRAME, C08 reuse, C09 totality, C11 count, C04 single STOP): the real
//! `generate_from_arbitrary` / `generate` -> `generate_internal` -> `emit_proto`, `weighted_choice`, the
//! back-patching arithmetic, against contracts of its three multi-step callees (DESIGN.md §3.3 layer L3b):
//!   get_valid_opcodes -> a non-empty list            (GUARD: NONE is always enabled; TABLE: NONE in every vocabulary)
//!   emit_and_process  -> appends 0..2 arbitrary bytes after the current end, touches nothing earlier (EMIT, POST)
//!   cleanup_for_stop  -> appends 0..2 arbitrary bytes                                                   (TAIL)
//! Under native playback (`cfg(test)`) nothing is stubbed: the whole real generator runs on the same entropy
//! and configuration, body emissions are counted by a do-nothing `Mutator`, and the same properties are
//! asserted on the real output through the reference lexer.
use super::common::*;
use super::ref_lex::*;
use super::ref_table::*;
use super::stubs::*;
use crate::generator::source::GenerationSource;
use crate::generator::Generator;
use crate::mutators::{EmissionSnapshot, Mutator};
use crate::opcodes::OpcodeKind;
use crate::stack::StackObject;

const RECMAX: usize = 8;

/// loop-free iteration (the harness' own loops must not force a large `#[kani::unwind]`: CBMC unrolls every
/// loop of the code under test, including the body loop of `generate_internal`, up to that bound)
macro_rules! unroll {
    ($i:ident in [$($n:expr),*] $body:block) => { $( { let $i: usize = $n; $body } )* };
}
struct HeadSt {
    tag: u64,
    calls: usize,
    rec: [u8; RECMAX],
    nrec: usize,
    /// scratch state was clean (empty stack, output = header only) when the first callee contract ran
    clean_at_entry: bool,
    seen_entry: bool,
    hdr: usize,
    deterministic: bool,
    /// bytes appended per body-contract call: 0..=2 fixed, 3 = symbolic 0..2
    body_k: u8,
    tail_k: u8,
}
static mut H: HeadSt = HeadSt {
    tag: 0x4845_4144_5f53_5421,
    calls: 0,
    rec: [0; RECMAX],
    nrec: 0,
    clean_at_entry: true,
    seen_entry: false,
    hdr: 0,
    deterministic: false,
    body_k: 3,
    tail_k: 3,
};

fn reset_h(deterministic: bool) {
    unsafe {
        H.calls = 0;
        H.nrec = 0;
        H.clean_at_entry = true;
        H.seen_entry = false;
        H.deterministic = deterministic;
    }
}

fn note_entry(g: &Generator) {
    unsafe {
        if !H.seen_entry {
            H.seen_entry = true;
            // output holds exactly the header (PROTO, and 9 reserved bytes when framed) and the stack is empty
            let l = g.output.len();
            H.clean_at_entry = g.state.stack.inner.len() == 0 && (l == H.hdr || l == H.hdr + 9);
        }
    }
}

fn append_arbitrary(g: &mut Generator, kk: u8) {
    unsafe {
        if H.deterministic {
            g.output.push(b'N');
            return;
        }
        let k: u8 = if kk <= 2 { kk } else { kani::any() };
        kani::assume(k <= 2);
        let mut j = 0;
        while j < k {
            let b: u8 = kani::any();
            g.output.push(b);
            if H.nrec < RECMAX {
                H.rec[H.nrec] = b;
            }
            H.nrec += 1;
            j += 1;
        }
    }
}

pub fn c_get_valid_opcodes(g: &Generator) -> Vec<OpcodeKind> {
    note_entry(g);
    vec![OpcodeKind::None]
}
pub fn c_emit_and_process(g: &mut Generator, _op: OpcodeKind, _s: &mut GenerationSource) -> color_eyre::Result<()> {
    note_entry(g);
    unsafe {
        H.calls += 1;
    }
    append_arbitrary(g, unsafe { H.body_k });
    Ok(())
}
pub fn c_cleanup_for_stop(g: &mut Generator) {
    note_entry(g);
    append_arbitrary(g, unsafe { H.tail_k });
}

/// native playback: counts calls of `emit_and_process` (post_process_emission runs once per call)
#[derive(Debug)]
struct Counting;
impl Mutator for Counting {
    fn name(&self) -> &str {
        "verif-counting"
    }
    fn post_process(&self, _s: &EmissionSnapshot, _o: &mut Vec<u8>, _src: &mut GenerationSource, _r: f64) -> bool {
        unsafe {
            H.calls += 1;
        }
        false
    }
}

fn le64(b: &[u8], at: usize) -> u64 {
    let mut v = 0u64;
    unroll!(i in [0,1,2,3,4,5,6,7] {
        v |= (b[at + i] as u64) << (8 * i);
    });
    v
}

/// C05 header, C06 frame, C04 single final STOP — on the bytes recorded by the contracts (symbolic mode)
#[cfg(not(test))]
fn check_layout(outv: &[u8], p: u8) {
    // copy into a fixed array first: assertions never index the heap Vec with a symbolic index
    const L: usize = 24;
    let olen = outv.len();
    assert!(olen >= 1 && olen <= L, "output must be non-empty");
    let mut out = [0u8; L];
    unroll!(i in [0,1,2,3,4,5,6,7,8,9,10,11,12,13,14,15,16,17,18,19,20,21,22,23] {
        if i < olen {
            out[i] = outv[i];
        }
    });
    let hdr = if p >= 2 { 2 } else { 0 };
    let n = unsafe { H.nrec };
    assert!(n <= RECMAX);
    assert!(out[olen - 1] == REF_OPS[I_STOP].code, "last byte must be STOP");
    if p >= 2 {
        assert!(olen >= 3 && out[0] == REF_OPS[I_PROTO].code && out[1] == p, "PROTO header with argument P");
    }
    let plain = olen == hdr + n + 1;
    let framed = p >= 4 && olen == hdr + 9 + n + 1;
    assert!(plain || framed, "output is header [+ FRAME] + body + tail + STOP and nothing else");
    let off = if plain { hdr } else { hdr + 9 };
    if framed && !plain {
        assert!(out[2] == REF_OPS[I_FRAME].code, "FRAME immediately follows PROTO");
        assert!(le64(&out, 3) == (n as u64) + 1, "FRAME length spans exactly the rest of the output");
    }
    unroll!(i in [0,1,2,3,4,5,6,7] {
        if i < n {
            assert!(out[off + i] == unsafe { H.rec[i] }, "body bytes are exactly what was appended, in order");
        }
    });
    kani::cover!(framed && !plain);
    kani::cover!(plain && p >= 4);
}

/// the same properties on a real output, through the reference lexer (native playback)
#[cfg(test)]
fn check_layout(out: &[u8], p: u8) {
    assert!(out.len() >= 1, "output must be non-empty");
    let mut protos = 0;
    let mut frames = 0;
    let mut stops = 0;
    let mut last_op = usize::MAX;
    let mut ok_positions = true;
    let total = out.len();
    let n = lex_all(out, |idx, l| {
        if l.op == I_PROTO {
            protos += 1;
            if idx != 0 || l.num != p as u64 {
                ok_positions = false;
            }
        }
        if l.op == I_FRAME {
            frames += 1;
            if idx != 1 || p < 4 || l.num != (total - l.end) as u64 {
                ok_positions = false;
            }
        }
        if l.op == I_STOP {
            stops += 1;
        }
        last_op = l.op;
    });
    assert!(n.is_some(), "output is header [+ FRAME] + body + tail + STOP and nothing else");
    assert!(last_op == I_STOP && stops == 1, "last byte must be STOP");
    assert!(protos == if p >= 2 { 1 } else { 0 }, "PROTO header with argument P");
    assert!(frames <= 1 && ok_positions, "FRAME immediately follows PROTO");
}

/// deterministic contracts (each call appends b'N'), counters cleared — used by family PURITY
pub fn head_reset_deterministic(p: u8) {
    reset_h(true);
    set_hdr(p);
}

fn set_hdr(p: u8) {
    unsafe {
        H.hdr = if p >= 2 { 2 } else { 0 };
    }
}

fn configured(p: u8, min: usize, max: usize) -> Generator {
    let mut g = Generator::new(version_of(p)).with_opcode_range(min, max);
    #[cfg(test)]
    {
        g.mutators.push(Box::new(Counting));
    }
    g
}

/// C11: number of body emissions T vs (min,max)
fn check_count(min: usize, max: usize) {
    let t = unsafe { H.calls };
    if max <= min {
        assert!(t == min, "T == min_opcodes when max <= min");
    } else {
        assert!(t >= min && t <= max, "min_opcodes <= T <= max_opcodes");
    }
}

macro_rules! head_stubs {
    ($(#[$m:meta])* fn $name:ident() $body:block) => {
        #[kani::proof]
        #[kani::stub(std::hash::RandomState::new, rs_conc)]
        #[kani::stub(std::rc::Rc::drop_slow, rc_drop_slow_noop)]
        #[kani::stub(Generator::get_valid_opcodes, c_get_valid_opcodes)]
        #[kani::stub(Generator::emit_and_process, c_emit_and_process)]
        #[kani::stub(Generator::cleanup_for_stop, c_cleanup_for_stop)]
        $(#[$m])*
        fn $name() $body
    };
}

// Cost notes (probes): CBMC unrolls the body loop of generate_internal up to the harness' unwind bound whatever
// the assumptions say, and a symbolic number of appended bytes makes every later Vec operation symbolic-sized.
// Hence: (a) layout instances fix T = min = max and the number of bytes each contract call appends (the bytes
// themselves, the protocol and the entropy stay symbolic); (b) count instances keep (min,max) symbolic and let
// the contracts append nothing; (c) the harness code itself is loop-free.

// ---- layout: header / FRAME / STOP, fuzzer-bytes entry point ------------------------------------------
macro_rules! head_layout {
    ($name:ident, $unw:expr, $p:expr, $t:expr, $dlen:expr, $bk:expr, $tk:expr) => {
        head_stubs! {
            #[kani::unwind($unw)]
            fn $name() {
                let p: u8 = if $p <= 5 { $p } else { any_proto() };
                let data: [u8; $dlen] = kani::any();
                let len: usize = kani::any();
                kani::assume(len <= $dlen);
                reset_h(false);
                unsafe { H.body_k = $bk; H.tail_k = $tk; }
                set_hdr(p);
                let mut g = configured(p, $t, $t);
                let r = g.generate_from_arbitrary(&data[..len]);
                assert!(r.is_ok(), "generation returns Ok");
                let out = r.unwrap();
                check_layout(&out, p);
                check_count($t, $t);
                std::mem::forget(out);
                std::mem::forget(g);
            }
        }
    };
}
head_layout!(head_layout_t0_k00, 6, 9, 0, 2, 0, 0);
head_layout!(head_layout_t0_k01, 6, 9, 0, 2, 0, 1);
head_layout!(head_layout_t1_k10, 6, 9, 1, 2, 1, 0);
head_layout!(head_layout_t1_k21, 6, 9, 1, 2, 2, 1);
head_layout!(head_layout_t2_k12, 6, 9, 2, 2, 1, 2);
head_layout!(head_layout_p5_t2_k12_len8, 10, 5, 2, 8, 1, 2);

// ---- layout through the seeded PRNG entry point ----------------------------------------------------------
// (`generate()` builds its own ChaCha8Rng: seed_from_u64 runs for real, the core is the arbitrary word stream)
pub fn seed_fresh(_seed: [u8; 32]) -> rand_chacha::ChaCha8Rng {
    fresh_rng()
}
macro_rules! head_layout_rng {
    ($name:ident, $unw:expr, $t:expr, $bk:expr, $tk:expr) => {
        head_stubs! {
            #[kani::unwind($unw)]
            #[kani::stub(<rand_chacha::ChaCha8Rng as rand::SeedableRng>::from_seed, seed_fresh)]
            #[kani::stub(<rand_chacha::ChaCha8Rng as rand::RngCore>::next_u32, rng_any_u32)]
            #[kani::stub(<rand_chacha::ChaCha8Rng as rand::RngCore>::next_u64, rng_any_u64)]
            fn $name() {
                let p = any_proto();
                reset_h(false);
                unsafe { H.body_k = $bk; H.tail_k = $tk; }
                set_hdr(p);
                let mut g = configured(p, $t, $t).with_seed(kani::any());
                let r = g.generate();
                assert!(r.is_ok(), "generation returns Ok");
                let out = r.unwrap();
                check_layout(&out, p);
                check_count($t, $t);
                std::mem::forget(out);
                std::mem::forget(g);
            }
        }
    };
}
head_layout_rng!(head_layout_rng_t1_k11, 10, 1, 1, 1);

// ---- count: T vs (min,max), both symbolic (C11), no appends ---------------------------------------------
macro_rules! head_count {
    ($name:ident, $unw:expr, $p:expr, $maxt:expr, $dlen:expr) => {
        head_stubs! {
            #[kani::unwind($unw)]
            fn $name() {
                let p: u8 = if $p <= 5 { $p } else { any_proto() };
                let min: usize = kani::any();
                let max: usize = kani::any();
                kani::assume(min <= $maxt && max <= $maxt);
                let data: [u8; $dlen] = kani::any();
                let len: usize = kani::any();
                kani::assume(len <= $dlen);
                reset_h(false);
                unsafe { H.body_k = 0; H.tail_k = 0; }
                set_hdr(p);
                let mut g = configured(p, min, max);
                let r = g.generate_from_arbitrary(&data[..len]);
                assert!(r.is_ok(), "generation returns Ok");
                let out = r.unwrap();
                check_count(min, max);
                kani::cover!(min < max && unsafe { H.calls } > min);
                kani::cover!(min > max);
                std::mem::forget(out);
                std::mem::forget(g);
            }
        }
    };
}
head_count!(head_count_t2, 5, 9, 2, 2);
head_count!(head_count_t4_len4, 7, 9, 4, 4);

macro_rules! head_count_rng {
    ($name:ident, $unw:expr, $maxt:expr) => {
        head_stubs! {
            #[kani::unwind($unw)]
            #[kani::stub(<rand_chacha::ChaCha8Rng as rand::SeedableRng>::from_seed, seed_fresh)]
            #[kani::stub(<rand_chacha::ChaCha8Rng as rand::RngCore>::next_u32, rng_any_u32)]
            #[kani::stub(<rand_chacha::ChaCha8Rng as rand::RngCore>::next_u64, rng_any_u64)]
            fn $name() {
                let p = any_proto();
                let min: usize = kani::any();
                let max: usize = kani::any();
                kani::assume(min <= $maxt && max <= $maxt);
                reset_h(false);
                unsafe { H.body_k = 0; H.tail_k = 0; }
                set_hdr(p);
                let mut g = configured(p, min, max).with_seed(kani::any());
                let r = g.generate();
                assert!(r.is_ok(), "generation returns Ok");
                let out = r.unwrap();
                check_count(min, max);
                kani::cover!(min < max && unsafe { H.calls } > min);
                std::mem::forget(out);
                std::mem::forget(g);
            }
        }
    };
}
head_count_rng!(head_count_rng_t2, 10, 2);

// ---- target arithmetic for unconstrained max (C09: no overflow; C11) ---------------------------------------
head_stubs! {
    #[kani::unwind(6)]
    fn head_count_max_any() {
        let p = any_proto();
        let min: usize = kani::any();
        let max: usize = kani::any();
        // T stays <= 3 by construction: min <= 3 and either max <= 3 or the input is exhausted (draw = 0);
        // min > max, min == max and max up to usize::MAX are all inside
        kani::assume(min <= 3);
        let data: [u8; 2] = kani::any();
        let len: usize = kani::any();
        kani::assume(len <= 2);
        kani::assume(max <= 3 || len == 0);
        reset_h(false);
        unsafe { H.body_k = 0; H.tail_k = 0; }
        set_hdr(p);
        let mut g = configured(p, min, max);
        let r = g.generate_from_arbitrary(&data[..len]);
        assert!(r.is_ok(), "generation returns Ok");
        let out = r.unwrap();
        check_count(min, max);
        kani::cover!(max == usize::MAX);
        std::mem::forget(out);
        std::mem::forget(g);
    }
}

// ---- C08: reuse ------------------------------------------------------------------------------------------
// A generator that already produced something (symbolic mode: scratch state poked dirty — one junk output byte,
// one stack item, PROTO flag as a completed call leaves it; native mode: a real earlier call) returns, for the same input, exactly
// what a fresh generator returns, with or without reset() in between.  Contracts are deterministic here (each
// call appends b'N'), so equal inputs must give equal outputs.
macro_rules! head_reuse {
    ($name:ident, $t:expr, $with_reset:expr) => {
        head_stubs! {
            #[kani::unwind(6)]
            fn $name() {
                let p = any_proto();
                let data: [u8; 2] = kani::any();
                let len: usize = kani::any();
                kani::assume(len <= 2);
                // drawn in both modes so that the replayed assignment lines up
                let earlier: [u8; 4] = kani::any();
                let junk: u8 = kani::any();
                let flag: bool = kani::any();
                set_hdr(p);
                // fresh generator
                reset_h(true);
                let mut g1 = configured(p, $t, $t);
                let r1 = g1.generate_from_arbitrary(&data[..len]);
                assert!(r1.is_ok());
                let a = r1.unwrap();
                // used generator
                let mut g2 = configured(p, $t, $t);
                #[cfg(not(test))]
                {
                    g2.output.push(junk);
                    g2.state.stack.push(StackObject::None);
                    // invariant of a generator that completed a call: PROTO was written iff the protocol has one
                    // (an arbitrary flag would admit pre-states no history reaches, e.g. P >= 2 with the flag off)
                    let _ = flag;
                    g2.state.proto_emitted = p >= 2;
                }
                #[cfg(test)]
                {
                    let _ = g2.generate_from_arbitrary(&earlier);
                }
                if $with_reset {
                    g2.reset();
                }
                reset_h(true);
                let r2 = g2.generate_from_arbitrary(&data[..len]);
                assert!(r2.is_ok());
                let b = r2.unwrap();
                #[cfg(not(test))]
                assert!(unsafe { H.clean_at_entry }, "scratch state (stack, output) is clean when generation starts");
                assert!(a.len() == b.len(), "a reused generator returns the same pickle as a fresh one (length)");
                let n = a.len();
                unroll!(i in [0,1,2,3,4,5,6,7,8,9,10,11,12,13,14,15] {
                    if i < n {
                        assert!(a[i] == b[i], "a reused generator returns the same pickle as a fresh one (bytes)");
                    }
                });
                kani::cover!(n > 11);
                std::mem::forget(a);
                std::mem::forget(b);
                std::mem::forget(g1);
                std::mem::forget(g2);
            }
        }
    };
}
head_reuse!(head_reuse_t1_noreset, 1, false);
head_reuse!(head_reuse_t1_reset, 1, true);
head_reuse!(head_reuse_t0_noreset, 0, false);
