//! Reference pickle machine: the stack/memo checks of CPython's `pickletools.dis` on fixed-size arrays, plus
//! the operand-kind rules of property C03.  Written from pickletools' source, independent of /repo/src
//! (it only names `OpcodeKind` to be indexable by the harnesses).  Validated natively against CPython by
//! /verif/oracle/validate_ref.py.
use super::ref_table::*;

pub const MAXD: usize = 10;
pub const MAXM: usize = 4;

/// Abstract state of the reference machine.  `k[0]` is the bottom of the stack.  The memo holds the keys
/// `0..m` (contiguity is the generator's own invariant, established by family MEMO-PUT) with kinds `mk`.
#[derive(Clone, Copy)]
pub struct RefState {
    pub n: usize,
    pub k: [u8; MAXD],
    pub m: usize,
    pub mk: [u8; MAXM],
}

impl RefState {
    pub const fn empty() -> Self {
        RefState { n: 0, k: [K_ANY; MAXD], m: 0, mk: [K_ANY; MAXM] }
    }
    pub fn push(&mut self, kind: u8) {
        if self.n < MAXD {
            self.k[self.n] = kind;
        }
        self.n += 1;
    }
    pub fn top(&self) -> Option<u8> {
        if self.n == 0 || self.n > MAXD {
            None
        } else {
            Some(self.k[self.n - 1])
        }
    }
    /// kind at `depth` below the top (0 = top)
    pub fn at(&self, depth: usize) -> Option<u8> {
        if depth < self.n && self.n <= MAXD {
            Some(self.k[self.n - 1 - depth])
        } else {
            None
        }
    }
    /// index of the topmost markobject
    pub fn top_mark(&self) -> Option<usize> {
        let mut i = self.n;
        while i > 0 {
            i -= 1;
            if self.k[i] == K_MARK {
                return Some(i);
            }
        }
        None
    }
    pub fn marks(&self) -> usize {
        let mut c = 0;
        let mut i = 0;
        while i < self.n && i < MAXD {
            if self.k[i] == K_MARK {
                c += 1;
            }
            i += 1;
        }
        c
    }
}

pub fn compat(a: u8, b: u8) -> bool {
    if a == K_MARK || b == K_MARK {
        return a == b;
    }
    a == b
        || a == K_ANY
        || b == K_ANY
        || (a == K_INT_OR_BOOL && (b == K_INT || b == K_BOOL))
        || (b == K_INT_OR_BOOL && (a == K_INT || a == K_BOOL))
}

fn is_put(i: usize) -> bool {
    i == I_PUT || i == I_BINPUT || i == I_LONG_BINPUT || i == I_MEMOIZE
}
fn is_get(i: usize) -> bool {
    i == I_GET || i == I_BINGET || i == I_LONG_BINGET
}

/// does this opcode take the MARK path of pickletools.dis in state `s`?
fn mark_path(i: usize, s: &RefState) -> bool {
    REF_OPS[i].mark || (i == I_POP && s.top() == Some(K_MARK))
}

/// `pickletools.dis` accepts opcode `i` (memo argument `arg` for PUT/GET families) in state `s`.
pub fn pre(i: usize, s: &RefState, arg: usize) -> bool {
    let op = &REF_OPS[i];
    let mut avail = s.n;
    let mut npop = op.npop as usize;
    if mark_path(i, s) {
        // "no MARK exists on stack" (markstack is non-empty whenever the stack holds a markobject)
        match s.top_mark() {
            None => return false,
            Some(p) => {
                avail = p;
                if !op.mark {
                    npop = 0; // POP of a markobject
                }
            }
        }
    }
    if is_put(i) {
        let idx = if i == I_MEMOIZE { s.m } else { arg };
        if idx < s.m {
            return false; // "memo key already defined"
        }
        match s.top() {
            None => return false,                        // "stack is empty -- can't store into memo"
            Some(k) if k == K_MARK => return false,      // "can't store markobject in the memo"
            _ => {}
        }
    } else if is_get(i) {
        if arg >= s.m {
            return false; // "memo key has never been stored into"
        }
    }
    // "tries to pop n items from stack with only m items"
    avail >= npop
}

/// state after opcode `i`; only meaningful when `pre` holds.  `pushed` overrides the table's result kind
/// (used for INT "00"/"01", which pickletools types as int-or-bool).
pub fn step(i: usize, s: &RefState, arg: usize) -> RefState {
    let op = &REF_OPS[i];
    let mut t = *s;
    let mut npop = op.npop as usize;
    if mark_path(i, s) {
        if let Some(p) = s.top_mark() {
            t.n = p;
            if !op.mark {
                npop = 0;
            }
        }
    }
    if is_put(i) {
        let idx = if i == I_MEMOIZE { s.m } else { arg };
        if idx == s.m {
            if s.m < MAXM {
                t.mk[s.m] = s.top().unwrap_or(K_ANY);
            }
            t.m = s.m + 1;
        }
        // PUT/BINPUT/LONG_BINPUT have no stack effect; MEMOIZE pops and re-pushes the same object
        return t;
    }
    let popped_top = t.at(0);
    t.n -= npop;
    if i == I_DUP {
        // pickletools pushes two `anyobject`s: the copies are never markobjects, even if the popped item was one
        // (the kind of a non-mark item is kept: a refinement pickletools does not make)
        let k = match popped_top {
            Some(k) if k != K_MARK => k,
            _ => K_ANY,
        };
        t.push(k);
        t.push(k);
        return t;
    }
    if is_get(i) {
        let k = if arg < MAXM { s.mk[arg] } else { K_ANY };
        t.push(k);
        return t;
    }
    let mut j = 0;
    while j < op.npush {
        t.push(op.push_kind);
        j += 1;
    }
    t
}

fn is(k: Option<u8>, want: u8) -> bool {
    match k {
        Some(x) => x != K_MARK && compat(x, want),
        None => false,
    }
}

/// number of items above the topmost mark
fn above_mark(s: &RefState) -> Option<usize> {
    s.top_mark().map(|p| s.n - 1 - p)
}
fn below_mark(s: &RefState) -> Option<u8> {
    match s.top_mark() {
        Some(p) if p > 0 => Some(s.k[p - 1]),
        _ => None,
    }
}

/// Operand-kind rules of property C03 (in addition to `pre`).
pub fn kinds_pre(i: usize, s: &RefState) -> bool {
    if i == I_APPEND {
        is(s.at(1), K_LIST)
    } else if i == I_APPENDS {
        is(below_mark(s), K_LIST)
    } else if i == I_SETITEM {
        is(s.at(2), K_DICT)
    } else if i == I_SETITEMS {
        is(below_mark(s), K_DICT) && above_mark(s).map_or(false, |c| c % 2 == 0)
    } else if i == I_ADDITEMS {
        is(below_mark(s), K_SET)
    } else if i == I_DICT {
        above_mark(s).map_or(false, |c| c % 2 == 0)
    } else if i == I_STACK_GLOBAL {
        is(s.at(0), K_STR) && is(s.at(1), K_STR)
    } else if i == I_REDUCE || i == I_NEWOBJ {
        is(s.at(0), K_TUPLE) && is(s.at(1), K_CALLABLE)
    } else if i == I_NEWOBJ_EX {
        is(s.at(0), K_DICT) && is(s.at(1), K_TUPLE) && is(s.at(2), K_CALLABLE)
    } else if i == I_BUILD {
        is(s.at(1), K_INSTANCE) && (is(s.at(0), K_TUPLE) || is(s.at(0), K_DICT))
    } else if i == I_OBJ {
        match s.top_mark() {
            Some(p) if p + 1 < s.n => is(Some(s.k[p + 1]), K_CALLABLE),
            _ => false,
        }
    } else if i == I_DUP {
        s.top().map_or(false, |k| k != K_MARK)
    } else {
        true
    }
}
