//! Family TABLE (C05, C04, C12): the opcode tables against CPython's.
//!   * `as_u8` is the CPython code for every one of the 68 kinds;
//!   * every entry of PICKLE_OPCODES[P] was introduced in protocol <= P (C05), no entry twice;
//!   * every CPython opcode introduced in protocol <= P is listed for P (C12: nothing silently missing).
use super::common::*;
use super::ref_table::*;
use crate::opcodes::{OpcodeKind, PICKLE_OPCODES};

#[kani::proof]
#[kani::unwind(2)]
fn table_as_u8_matches_cpython() {
    let i: usize = kani::any();
    kani::assume(i < N_OPS);
    let k = ALL_KINDS[i];
    assert!(ref_index(k) == i);
    assert!(k.as_u8() == REF_OPS[i].code, "opcode byte differs from CPython's");
    kani::cover!(i == N_OPS - 1);
}

macro_rules! table_p {
    ($sound:ident, $complete:ident, $p:expr) => {
        #[kani::proof]
        #[kani::unwind(4)]
        fn $sound() {
            let p: u8 = $p;
            let t = PICKLE_OPCODES.get(&p);
            assert!(t.is_some(), "no opcode table for the protocol");
            let t = t.unwrap();
            let j: usize = kani::any();
            let j2: usize = kani::any();
            kani::assume(j < t.len() && j2 < t.len() && j != j2);
            assert!(REF_OPS[ref_index(t[j])].proto <= p, "table lists an opcode introduced in a later protocol");
            assert!(t[j] != t[j2], "table lists an opcode twice (skews the uniform choice)");
            kani::cover!(j == t.len() - 1);
        }
        #[kani::proof]
        #[kani::unwind(70)]
        fn $complete() {
            let p: u8 = $p;
            let t = PICKLE_OPCODES.get(&p).unwrap();
            let i: usize = kani::any();
            kani::assume(i < N_OPS && REF_OPS[i].proto <= p);
            let want = ALL_KINDS[i];
            let mut found = false;
            let mut j = 0;
            while j < t.len() {
                if t[j] == want {
                    found = true;
                }
                j += 1;
            }
            assert!(found, "an opcode of the protocol's vocabulary is missing from the table");
            kani::cover!(i == 0);
        }
    };
}
table_p!(table_sound_p0, table_complete_p0, 0);
table_p!(table_sound_p1, table_complete_p1, 1);
table_p!(table_sound_p2, table_complete_p2, 2);
table_p!(table_sound_p3, table_complete_p3, 3);
table_p!(table_sound_p4, table_complete_p4, 4);
table_p!(table_sound_p5, table_complete_p5, 5);
