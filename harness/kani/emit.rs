//! Family EMIT (C04, C05, C10, C11, C17, C02 via MEMO-PUT, C09): one real `emit_and_process(op, source)` with
//! symbolic entropy, protocol, flags, mutation rate and memo size, `process_stack_ops` replaced by a recorder
//! (layer L2 of DESIGN.md §3.3).  Checked on the bytes actually appended, through the reference lexer:
//!   * earlier output untouched; exactly one complete, well-formed lexeme appended (C04, C11);
//!   * its opcode is the requested one (or, for the integer emitter, an integer opcode) and belongs to the
//!     protocol's vocabulary (C05); EXT*/buffer bytes only when such an opcode was requested (C10);
//!   * the stack simulation was invoked exactly once, with that opcode and exactly the appended argument (C17);
//!   * PUT-family: the index is the next free one (C02, for every memo size m <= 70000);
//!   * EXT codes >= 1 as decoded, memo indices non-negative, decimals parseable (C04 domain rules, in the lexer).
//! Under native playback the recorder does not exist (the real simulation runs); the byte-level checks are the same.
use super::common::*;
use super::guard::*;
use super::ref_lex::*;
use super::ref_table::*;
use super::stubs::*;
use crate::generator::source::GenerationSource;
use crate::generator::Generator;
use crate::mutators::*;
use crate::opcodes::OpcodeKind;
use arbitrary::Unstructured;

pub const RECARG: usize = 16;
pub struct Rec {
    pub tag: u64,
    pub calls: usize,
    pub op: usize,
    pub some: bool,
    pub len: usize,
    pub arg: [u8; RECARG],
}
pub static mut REC: Rec = Rec { tag: 0x5245_435f_5053_4f21, calls: 0, op: 0, some: false, len: 0, arg: [0; RECARG] };

pub fn c_pso(_g: &mut Generator, op: OpcodeKind, arg: Option<&[u8]>) {
    unsafe {
        REC.calls += 1;
        REC.op = ref_index(op);
        match arg {
            None => {
                REC.some = false;
                REC.len = 0;
            }
            Some(a) => {
                REC.some = true;
                REC.len = a.len();
                crate::vk_unroll!(i in [0, 1, 2, 3, 4, 5, 6, 7, 8, 9, 10, 11, 12, 13, 14, 15] {
                    if i < a.len() {
                        REC.arg[i] = a[i];
                    }
                });
            }
        }
    }
}

/// contract of `get_random_module` (DESIGN.md §2.3 module_contract): "m\na\n", names = 1 printable non-newline
/// ASCII character each.  Assumed, not proven; justified by reading + the data scan unit `data_stdlib_scan`.
pub fn module_contract(_g: &Generator, _s: &mut GenerationSource) -> color_eyre::Result<String> {
    let m: u8 = kani::any();
    let a: u8 = kani::any();
    kani::assume(m >= 0x21 && m <= 0x7e && m != b'\\');
    kani::assume(a >= 0x21 && a <= 0x7e && a != b'\\');
    Ok(unsafe { String::from_utf8_unchecked(vec![m, b'\n', a, b'\n']) })
}

/// `format!` replaced for the FLOAT arm only: an arbitrary short ASCII float literal line.
/// (That Rust's `Display for f64` prints something Python's float() accepts is outside the claim.)
pub fn fmt_float_line(_args: std::fmt::Arguments<'_>) -> String {
    let d: u8 = kani::any();
    kani::assume(d >= b'0' && d <= b'9');
    unsafe { String::from_utf8_unchecked(vec![d, b'\n']) }
}

/// reference implementation of `str::replace` for a `char` pattern (std's Searcher does not finish under CBMC);
/// the driver checks syntactically that every `.replace(` in /repo/src has a char-literal pattern.
pub fn str_replace_char<P: std::str::pattern::Pattern>(s: &str, _from: P, _to: &str) -> String {
    // only instantiated on the empty string in this family (content-dependent escaping is family ESC's subject)
    assert!(s.is_empty(), "EMIT string instances use the empty string only");
    String::new()
}

pub const BUFL: usize = 40;

fn is_int_like(i: usize) -> bool {
    i == I_INT || i == I_LONG || i == I_LONG1 || i == I_LONG4 || i == I_BININT || i == I_BININT1 || i == I_BININT2
}
fn is_optin(i: usize) -> bool {
    i == I_EXT1 || i == I_EXT2 || i == I_EXT4 || i == I_NEXT_BUFFER || i == I_READONLY_BUFFER
}
/// bytes of the argument that are a length prefix (the simulation receives the payload only)
fn prefix_len(arg: u8) -> usize {
    if arg == A_STRING1 || arg == A_BYTES1 || arg == A_UNICODESTRING1 {
        1
    } else if arg == A_STRING4 || arg == A_BYTES4 || arg == A_UNICODESTRING4 {
        4
    } else if arg == A_BYTES8 || arg == A_UNICODESTRING8 || arg == A_BYTEARRAY8 {
        8
    } else {
        0
    }
}

/// `pre_len`: output length before the call; `want`: reference index of the requested opcode;
/// `rewritten`: a post-emission rewrite (unsafe TypeConfusion) is possible in this instance
pub fn check_emission(g: &Generator, p: u8, want: usize, exact: usize, m: usize, rewritten: bool, maxline: usize) -> Lexeme {
    let olen = g.output.len();
    assert!(olen > 2 && olen <= BUFL, "exactly one opcode is appended per emission");
    let mut buf = [0u8; BUFL];
    crate::vk_unroll!(i in [0,1,2,3,4,5,6,7,8,9,10,11,12,13,14,15,16,17,18,19,20,21,22,23,24,25,26,27,28,29,30,31,32,33,34,35,36,37,38,39] {
        if i < olen {
            buf[i] = g.output[i];
        }
    });
    assert!(buf[0] == 0xAA && buf[1] == 0x55, "bytes emitted earlier are rewritten");
    let l = if is_int_like(want) && !rewritten {
        // the integer emitter chooses among the integer opcodes: try each candidate with a concrete opcode
        let mut r: Option<Lexeme> = None;
        let mut matched = false;
        macro_rules! cand { ($($k:expr),*) => { $( if buf[2] == REF_OPS[$k].code { matched = true; r = lex_with_op(&buf[..olen], 2, $k, maxline); } )* }; }
        cand!(I_INT, I_LONG, I_BININT, I_BININT1, I_BININT2, I_LONG1, I_LONG4);
        assert!(matched, "integer emitter produced a non-integer opcode");
        r
    } else if exact < N_OPS && !rewritten {
        // the instance knows which opcode must come out: check the byte, then lex with a concrete opcode
        assert!(buf[2] == REF_OPS[exact].code, "emitted opcode is not the requested one");
        lex_with_op(&buf[..olen], 2, exact, maxline)
    } else {
        lex_one_bounded(&buf[..olen], 2, maxline)
    };
    assert!(l.is_some(), "appended bytes are not one well-formed opcode with a complete in-domain argument");
    let l = l.unwrap();
    assert!(l.end == olen, "more than one opcode (or trailing bytes) appended by one emission");
    if !rewritten {
        if is_int_like(want) {
            assert!(is_int_like(l.op), "integer emitter produced a non-integer opcode");
        } else {
            assert!(l.op == want, "emitted opcode is not the requested one");
        }
        assert!(REF_OPS[l.op].proto <= p, "emitted opcode is not in the protocol's vocabulary");
        if p == 0 {
            crate::vk_unroll!(i in [2,3,4,5,6,7,8,9,10,11,12,13,14,15,16,17,18,19,20,21,22,23,24,25,26,27,28,29,30,31,32,33,34,35,36,37,38,39] {
                if i < olen {
                    assert!(buf[i] < 0x80, "protocol 0 output must be 7-bit ASCII");
                }
            });
        }
        if l.op == I_PUT || l.op == I_BINPUT || l.op == I_LONG_BINPUT {
            assert!(l.num == m as u64, "PUT-family index is not the next free memo index");
        }
    }
    if is_optin(l.op) {
        assert!(is_optin(want), "EXT/buffer opcode appears although a different opcode was requested");
    }
    assert!(l.op != I_FRAME && l.op != I_PROTO && l.op != I_STOP, "framing opcode emitted in the body");
    #[cfg(not(test))]
    unsafe {
        if !rewritten {
            assert!(REC.calls == 1, "stack simulation not invoked exactly once for the emitted opcode");
            assert!(REC.op == l.op, "stack simulation invoked with a different opcode than the one emitted");
            let kind = REF_OPS[l.op].arg;
            if kind == A_NONE {
                assert!(!REC.some || REC.len == 0, "stack simulation got argument bytes for an argument-less opcode");
            } else {
                let start = l.arg_start + prefix_len(kind);
                assert!(REC.some && REC.len == l.end - start, "stack simulation got a different argument than was emitted");
                crate::vk_unroll!(i in [0, 1, 2, 3, 4, 5, 6, 7, 8, 9, 10, 11, 12, 13, 14, 15] {
                    if i < REC.len {
                        assert!(REC.arg[i] == buf[start + i], "stack simulation got different argument bytes than were emitted");
                    }
                });
            }
        }
    }
    l
}
pub fn any_rate() -> f64 {
    let r: f64 = kani::any();
    kani::assume(r >= 0.0 && r <= 1.0);
    r
}

/// mutator selection per instance: 0 none, 1 bitflip, 2 boundary, 3 offbyone, 4 stringlen, 5 character,
/// 6 memoindex(safe), 7 memoindex(unsafe), 8 typeconfusion(safe), 9 typeconfusion(unsafe), 10 safe set {3, 6, 8}
pub fn install(g: &mut Generator, which: u8) {
    match which {
        1 => g.mutators.push(Box::new(BitFlipMutator)),
        2 => g.mutators.push(Box::new(BoundaryMutator)),
        3 => g.mutators.push(Box::new(OffByOneMutator)),
        4 => g.mutators.push(Box::new(StringLengthMutator)),
        5 => g.mutators.push(Box::new(CharacterMutator)),
        6 => g.mutators.push(Box::new(MemoIndexMutator::new(false))),
        7 => g.mutators.push(Box::new(MemoIndexMutator::new(true))),
        8 => g.mutators.push(Box::new(TypeConfusionMutator::new(false))),
        9 => g.mutators.push(Box::new(TypeConfusionMutator::new(true))),
        10 => {
            // the memo-relevant part of the safe set the CLI builds for `--mutators all` (every member created safe)
            g.mutators.push(Box::new(OffByOneMutator));
            g.mutators.push(Box::new(MemoIndexMutator::new(false)));
            g.mutators.push(Box::new(TypeConfusionMutator::new(false)));
        }
        _ => {}
    }
}

macro_rules! emit_h {
    ($name:ident, $op:ident, $exact:expr, $p:expr, $unw:expr, $lead:expr, $mutk:expr, $maxline:expr, $dlen:expr $(, $extra:meta)*) => {
        #[kani::proof]
        #[kani::unwind($unw)]
        #[kani::stub(std::hash::RandomState::new, rs_conc)]
        #[kani::stub(std::rc::Rc::drop_slow, rc_drop_slow_noop)]
        #[kani::stub(std::collections::HashMap::len, hm_len_any)]
        #[kani::stub(std::collections::HashMap::is_empty, hm_is_empty_any)]
        #[kani::stub(Generator::process_stack_ops, c_pso)]
        #[kani::stub(Generator::get_random_module, module_contract)]
        $(#[$extra])*
        fn $name() {
            let p: u8 = if $p <= 5 { $p } else { any_proto() };
            // only opcodes of the protocol's vocabulary are ever requested (TABLE: PICKLE_OPCODES[P] has proto <= P)
            kani::assume($p <= 5 || REF_OPS[ref_index(OpcodeKind::$op)].proto <= p);
            let mut g = Generator::new(version_of(p));
            g.allow_ext_opcodes = kani::any();
            g.allow_buffer_opcodes = kani::any();
            g.unsafe_mutations = $mutk == 7 || $mutk == 9;
            g.mutation_rate = any_rate();
            install(&mut g, $mutk);
            let m: usize = kani::any();
            kani::assume(m <= 70000);
            unsafe {
                MEMO.m = m;
                REC.calls = 0;
            }
            #[cfg(test)]
            {
                let mut j = 0;
                while j < m {
                    g.put(j, crate::stack::StackObject::None);
                    j += 1;
                }
            }
            g.output.push(0xAA);
            g.output.push(0x55);
            let op = OpcodeKind::$op;
            // PUT-family: only emitted when the guard allows it (a memoizable object on top, index representable)
            g.state.stack.push(crate::stack::StackObject::None);
            if ref_index(op) == I_PUT || ref_index(op) == I_BINPUT || ref_index(op) == I_LONG_BINPUT {
                kani::assume(g.can_emit(op));
            }
            let mut data: [u8; $dlen] = kani::any();
            let lead: &[u8] = &$lead;
            crate::vk_unroll!(i in [0, 1, 2, 3] {
                if i < lead.len() && i < $dlen {
                    data[i] = lead[i];
                }
            });
            let len: usize = kani::any();
            // the concrete choice bytes are really read (an exhausted input yields 0 there, which is the
            // same as the instance with a leading 0 byte)
            kani::assume(len <= $dlen && len >= lead.len());
            let mut u = Unstructured::new(&data[..len]);
            let mut src = GenerationSource::Arbitrary(&mut u);
            let r = g.emit_and_process(op, &mut src);
            assert!(r.is_ok(), "emission returns Ok");
            check_emission(&g, p, ref_index(op), $exact, m, $mutk == 9, $maxline);
            kani::cover!(true);
            std::mem::forget(g);
        }
    };
}

// ---- long payloads: the largest base payload (31 bytes) with the string-length mutator ---------------------------
pub const BUFLL: usize = 96;
pub fn check_emission_long(g: &Generator, exact: usize) {
    let olen = g.output.len();
    assert!(olen > 2 && olen <= BUFLL, "exactly one opcode is appended per emission");
    let mut buf = [0u8; BUFLL];
    crate::vk_unroll!(i in [0,1,2,3,4,5,6,7,8,9,10,11,12,13,14,15,16,17,18,19,20,21,22,23,24,25,26,27,28,29,30,31,32,33,34,35,36,37,38,39,
                            40,41,42,43,44,45,46,47,48,49,50,51,52,53,54,55,56,57,58,59,60,61,62,63,64,65,66,67,68,69,70,71,72,73,74,75,76,77,78,79,
                            80,81,82,83,84,85,86,87,88,89,90,91,92,93,94,95] {
        if i < olen {
            buf[i] = g.output[i];
        }
    });
    assert!(buf[0] == 0xAA && buf[1] == 0x55, "bytes emitted earlier are rewritten");
    assert!(buf[2] == REF_OPS[exact].code, "emitted opcode is not the requested one");
    let l = lex_with_op(&buf[..olen], 2, exact, 2);
    assert!(l.is_some(), "appended bytes are not one well-formed opcode with a complete in-domain argument");
    let l = l.unwrap();
    assert!(l.end == olen, "more than one opcode (or trailing bytes) appended by one emission");
    #[cfg(not(test))]
    unsafe {
        let start = l.arg_start + prefix_len(REF_OPS[exact].arg);
        assert!(REC.calls == 1 && REC.op == exact, "stack simulation not invoked exactly once with the emitted opcode");
        assert!(REC.some && REC.len == l.end - start, "stack simulation got a different argument than was emitted");
    }
}

macro_rules! emit_long_h {
    ($name:ident, $op:ident, $exact:expr, $unw:expr, $lead:expr, $mutk:expr, $dlen:expr) => {
        #[kani::proof]
        #[kani::unwind($unw)]
        #[kani::stub(std::hash::RandomState::new, rs_conc)]
        #[kani::stub(std::rc::Rc::drop_slow, rc_drop_slow_noop)]
        #[kani::stub(Generator::process_stack_ops, c_pso)]
        fn $name() {
            let p = any_proto();
            kani::assume(REF_OPS[$exact].proto <= p);
            let mut g = Generator::new(version_of(p));
            g.mutation_rate = any_rate();
            install(&mut g, $mutk);
            unsafe {
                REC.calls = 0;
            }
            g.output.push(0xAA);
            g.output.push(0x55);
            // payload content is concrete (zeros): only lengths matter here, and a concrete payload keeps a 255-byte base
            // tractable.  The mutator's entropy is symbolic wherever it would be read: right after a 31-byte payload
            // (unchanged tree) and right after a 255-byte payload (should the length computation change).
            let mut data = [0u8; $dlen];
            data[0] = $lead;
            let w1: [u8; 16] = kani::any();
            let w2: [u8; 16] = kani::any();
            crate::vk_unroll!(i in [0, 1, 2, 3, 4, 5, 6, 7, 8, 9, 10, 11, 12, 13, 14, 15] {
                if 32 + i < $dlen { data[32 + i] = w1[i]; }
                if 256 + i < $dlen { data[256 + i] = w2[i]; }
            });
            let mut u = Unstructured::new(&data);
            let mut src = GenerationSource::Arbitrary(&mut u);
            let r = g.emit_and_process(OpcodeKind::$op, &mut src);
            assert!(r.is_ok(), "emission returns Ok");
            check_emission_long(&g, $exact);
            kani::cover!(g.output.len() > 40);
            std::mem::forget(g);
        }
    };
}
// length byte 255: on the unchanged tree 255 % 32 = 31, the largest base payload.  (Sizing unwind/entropy for a 255-byte
// base — unwind 260 — did not finish in 40 min even on the unchanged tree; a base payload longer than 38 bytes therefore
// shows up as an unwinding failure = inconclusive, not as a violation.)
emit_long_h!(emit_short_binbytes_maxlen_stringlen, ShortBinBytes, I_SHORT_BINBYTES, 40, 255, 4, 64);
emit_long_h!(emit_short_binstring_maxlen_stringlen, ShortBinString, I_SHORT_BINSTRING, 40, 255, 4, 64);
emit_long_h!(emit_binbytes_maxlen_stringlen, BinBytes, I_BINBYTES, 40, 255, 4, 64);
emit_long_h!(emit_short_binbytes_maxlen_none, ShortBinBytes, I_SHORT_BINBYTES, 40, 255, 0, 64);

include!("gen_emit.rs");
