//! Family GUARD (C01, C02, C03, C09, C10, C12): the real `can_emit(op)` on a real heap stack of concrete depth
//! whose slot variants are symbolic (all 18^n kind vectors), against the reference machine:
//!   can_emit(op)  =>  pickletools.dis accepts op  and  the operand-kind rules of C03 hold.
//! plus the flag guards of C10 and the structural exclusions (FRAME/STOP never, PROTO once, NONE always).
use super::common::*;
use super::ref_dis::*;
use super::ref_table::*;
use crate::generator::Generator;
use crate::opcodes::OpcodeKind;
use crate::stack::{StackObject, StackObjectRef};
use std::collections::HashMap;

pub struct MemoSt {
    pub tag: u64,
    pub m: usize,
    /// variant codes of the (shadow) memo entries 0..MAXM
    pub codes: [u8; MAXM],
}
pub static mut MEMO: MemoSt = MemoSt { tag: 0x4d45_4d4f_5f53_5421, m: 0, codes: [3; MAXM] };

/// memo size is a symbolic m (keys 0..m by the contiguity invariant, family MEMO-PUT)
pub fn hm_len_any<K, V, S, A: std::alloc::Allocator>(_: &HashMap<K, V, S, A>) -> usize {
    unsafe { MEMO.m }
}
pub fn hm_is_empty_any<K, V, S, A: std::alloc::Allocator>(_: &HashMap<K, V, S, A>) -> bool {
    unsafe { MEMO.m == 0 }
}

/// loop-free iteration: the harness' own loops must not force a large `#[kani::unwind]`
#[macro_export]
macro_rules! vk_unroll {
    ($i:ident in [$($n:expr),*] $body:block) => { $( { let $i: usize = $n; $body } )* };
}

/// Build generator + reference state of depth `n` with symbolic kinds, optional DUP-style aliasing of one
/// adjacent pair, symbolic flags and a memo of symbolic size `m <= mmax` (shadow under `cargo kani`, real
/// entries under native playback).
pub fn build(n: usize, mmax: usize) -> (Generator, RefState) {
    let p = any_proto();
    let mut g = Generator::new(version_of(p));
    g.allow_ext_opcodes = kani::any();
    g.allow_buffer_opcodes = kani::any();
    g.state.proto_emitted = kani::any();
    configure_mode(&mut g);
    let mut rs = RefState::empty();
    let alias_at: usize = kani::any(); // slot alias_at (>= 1) is a second handle to the cell below it
    vk_unroll!(i in [0, 1, 2, 3, 4, 5, 6, 7] {
        if i < n {
            let c: u8 = kani::any();
            kani::assume(c < N_VARIANTS);
            if i >= 1 && i == alias_at {
                let below = g.state.stack.inner[i - 1].clone();
                let k = rs.k[i - 1];
                kani::assume(k != K_MARK); // DUP never duplicates a MARK (GUARD instance of DUP)
                g.state.stack.inner.push(below);
                rs.push(k);
            } else {
                g.state.stack.push(mk(c));
                rs.push(kind_of_code(c));
            }
        }
    });
    let m: usize = kani::any();
    kani::assume(m <= mmax);
    rs.m = m;
    vk_unroll!(j in [0, 1, 2, 3] {
        let c: u8 = kani::any();
        kani::assume(c < N_VARIANTS && c != 12);
        rs.mk[j] = kind_of_code(c);
        unsafe {
            MEMO.codes[j] = c;
        }
        #[cfg(test)]
        if j < m {
            g.put(j, mk(c));
        }
    });
    #[cfg(test)]
    {
        let mut j = MAXM;
        while j < m {
            g.put(j, StackObject::None);
            j += 1;
        }
    }
    unsafe {
        MEMO.m = m;
    }
    (g, rs)
}

/// Mode and mutator registration are part of the configuration a guard may (wrongly) depend on: the generator is
/// either in safe mode with the complete safe set registered (every mutator created safe — what `--mutators all`
/// builds; `is_unsafe()` of the inert TypeConfusion is still true), or in unsafe mode with the unsafe set, or has
/// no mutators.  `safe_mode(g)` is the condition under which C01/C03 apply.
pub fn configure_mode(g: &mut Generator) {
    use crate::mutators::*;
    let mode: u8 = kani::any();
    kani::assume(mode <= 2);
    if mode == 1 {
        g.mutators.push(Box::new(BitFlipMutator));
        g.mutators.push(Box::new(BoundaryMutator));
        g.mutators.push(Box::new(OffByOneMutator));
        g.mutators.push(Box::new(StringLengthMutator));
        g.mutators.push(Box::new(CharacterMutator));
        g.mutators.push(Box::new(MemoIndexMutator::new(false)));
        g.mutators.push(Box::new(TypeConfusionMutator::new(false)));
    } else if mode == 2 {
        g.unsafe_mutations = true;
        g.mutators.push(Box::new(MemoIndexMutator::new(true)));
        g.mutators.push(Box::new(TypeConfusionMutator::new(true)));
    }
    g.mutation_rate = 1.0;
}
pub fn safe_mode(g: &Generator) -> bool {
    !g.unsafe_mutations
}

/// "MARK-slice" shape: [x, MARK, i_1 .. i_k] with x any of the 18 variants and each i_j one of NONE / TUPLE /
/// CALLABLE / MARK — reaches slice lengths (parity, emptiness) that the all-kinds instances only reach at depths
/// that cost minutes.
pub fn build_shaped(k: usize) -> (Generator, RefState) {
    let p = any_proto();
    let mut g = Generator::new(version_of(p));
    g.allow_ext_opcodes = kani::any();
    g.allow_buffer_opcodes = kani::any();
    g.state.proto_emitted = kani::any();
    configure_mode(&mut g);
    let mut rs = RefState::empty();
    let c: u8 = kani::any();
    kani::assume(c < N_VARIANTS);
    g.state.stack.push(mk(c));
    rs.push(kind_of_code(c));
    g.state.stack.push(mk(12));
    rs.push(K_MARK);
    vk_unroll!(i in [0, 1, 2, 3, 4, 5] {
        if i < k {
            let sel: u8 = kani::any();
            kani::assume(sel < 4);
            let c: u8 = if sel == 0 { 3 } else if sel == 1 { 8 } else if sel == 2 { 15 } else { 12 };
            g.state.stack.push(mk(c));
            rs.push(kind_of_code(c));
        }
    });
    rs.m = 0;
    unsafe {
        MEMO.m = 0;
    }
    (g, rs)
}

macro_rules! guard_shape {
    ($name:ident, $op:ident, $k:expr, $unw:expr) => {
        #[kani::proof]
        #[kani::unwind($unw)]
        #[kani::stub(std::hash::RandomState::new, rs_conc)]
        #[kani::stub(std::rc::Rc::drop_slow, rc_drop_slow_noop)]
        #[kani::stub(std::collections::HashMap::len, hm_len_any)]
        #[kani::stub(std::collections::HashMap::is_empty, hm_is_empty_any)]
        fn $name() {
            let (g, rs) = build_shaped($k);
            let op = OpcodeKind::$op;
            let i = ref_index(op);
            let e = g.can_emit(op);
            if e && safe_mode(&g) {
                assert!(pre(i, &rs, 0), "enabled opcode violates the reference stack/memo discipline");
                assert!(kinds_pre(i, &rs), "enabled opcode gets an operand of the wrong kind");
            }
            kani::cover!(true);
            std::mem::forget(g);
        }
    };
}

macro_rules! guard_h {
    ($name:ident, $op:ident, $n:expr, $unw:expr) => {
        #[kani::proof]
        #[kani::unwind($unw)]
        #[kani::stub(std::hash::RandomState::new, rs_conc)]
        #[kani::stub(std::rc::Rc::drop_slow, rc_drop_slow_noop)]
        #[kani::stub(std::collections::HashMap::len, hm_len_any)]
        #[kani::stub(std::collections::HashMap::is_empty, hm_is_empty_any)]
        fn $name() {
            let (g, rs) = build($n, 300);
            let op = OpcodeKind::$op;
            let i = ref_index(op);
            let e = g.can_emit(op);
            if e {
                // memo argument: PUT-family emits the next free index (family MEMO-PUT), GET-family an existing key
                let arg = if i == I_GET || i == I_BINGET || i == I_LONG_BINGET { 0 } else { rs.m };
                if safe_mode(&g) {
                    assert!(pre(i, &rs, arg), "enabled opcode violates the reference stack/memo discipline");
                    assert!(kinds_pre(i, &rs), "enabled opcode gets an operand of the wrong kind");
                }
                if i == I_EXT1 || i == I_EXT2 || i == I_EXT4 {
                    assert!(g.allow_ext_opcodes, "EXT opcode enabled without the opt-in flag");
                }
                if i == I_NEXT_BUFFER || i == I_READONLY_BUFFER {
                    assert!(g.allow_buffer_opcodes, "buffer opcode enabled without the opt-in flag");
                }
                assert!(i != I_FRAME && i != I_STOP, "FRAME/STOP must never be a body choice");
                if i == I_PROTO {
                    assert!(!g.state.proto_emitted, "PROTO enabled twice");
                }
            }
            if i == I_NONE {
                assert!(e, "NONE is always enabled (the valid set is never empty)");
            }
            std::mem::forget(g);
        }
    };
}

/// One GUARD query for ALL opcodes on the same symbolic state of depth `n` (quick tier: Kani's per-harness overhead —
/// goto-cc + three goto-instrument passes, ~20 s — dominates the per-opcode instances; the stack construction is shared
/// here).  Same assertions as `guard_h`, the opcode is named in every message.
macro_rules! guard_all {
    ($name:ident, $n:expr, $unw:expr, [$($op:ident),*]) => {
        #[kani::proof]
        #[kani::unwind($unw)]
        #[kani::stub(std::hash::RandomState::new, rs_conc)]
        #[kani::stub(std::rc::Rc::drop_slow, rc_drop_slow_noop)]
        #[kani::stub(std::collections::HashMap::len, hm_len_any)]
        #[kani::stub(std::collections::HashMap::is_empty, hm_is_empty_any)]
        fn $name() {
            let (g, rs) = build($n, 300);
            $( {
                let op = OpcodeKind::$op;
                let i = ref_index(op);
                let e = g.can_emit(op);
                if e {
                    let arg = if i == I_GET || i == I_BINGET || i == I_LONG_BINGET { 0 } else { rs.m };
                    if safe_mode(&g) {
                        assert!(pre(i, &rs, arg), concat!("enabled opcode violates the reference stack/memo discipline [", stringify!($op), "]"));
                        assert!(kinds_pre(i, &rs), concat!("enabled opcode gets an operand of the wrong kind [", stringify!($op), "]"));
                    }
                    if i == I_EXT1 || i == I_EXT2 || i == I_EXT4 {
                        assert!(g.allow_ext_opcodes, concat!("EXT opcode enabled without the opt-in flag [", stringify!($op), "]"));
                    }
                    if i == I_NEXT_BUFFER || i == I_READONLY_BUFFER {
                        assert!(g.allow_buffer_opcodes, concat!("buffer opcode enabled without the opt-in flag [", stringify!($op), "]"));
                    }
                    assert!(i != I_FRAME && i != I_STOP, "FRAME/STOP must never be a body choice");
                    if i == I_PROTO {
                        assert!(!g.state.proto_emitted, "PROTO enabled twice");
                    }
                }
                if i == I_NONE {
                    assert!(e, "NONE is always enabled (the valid set is never empty)");
                }
            } )*
            kani::cover!(true);
            std::mem::forget(g);
        }
    };
}

/// all guard covers of one depth in one query
macro_rules! guard_cover_all {
    ($name:ident, $n:expr, $unw:expr, [$($op:ident),*]) => {
        #[kani::proof]
        #[kani::unwind($unw)]
        #[kani::stub(std::hash::RandomState::new, rs_conc)]
        #[kani::stub(std::rc::Rc::drop_slow, rc_drop_slow_noop)]
        #[kani::stub(std::collections::HashMap::len, hm_len_any)]
        #[kani::stub(std::collections::HashMap::is_empty, hm_is_empty_any)]
        fn $name() {
            let (mut g, rs) = build($n, 300);
            g.allow_ext_opcodes = true;
            g.allow_buffer_opcodes = true;
            g.state.proto_emitted = false;
            $( kani::cover!(g.can_emit(OpcodeKind::$op)); )*
            std::mem::forget(g);
        }
    };
}

/// reachability of each guard (C12, vacuity): some state of this depth enables the opcode
macro_rules! guard_cover {
    ($name:ident, $op:ident, $n:expr, $unw:expr) => {
        #[kani::proof]
        #[kani::unwind($unw)]
        #[kani::stub(std::hash::RandomState::new, rs_conc)]
        #[kani::stub(std::rc::Rc::drop_slow, rc_drop_slow_noop)]
        #[kani::stub(std::collections::HashMap::len, hm_len_any)]
        #[kani::stub(std::collections::HashMap::is_empty, hm_is_empty_any)]
        fn $name() {
            let (mut g, rs) = build($n, 300);
            g.allow_ext_opcodes = true;
            g.allow_buffer_opcodes = true;
            g.state.proto_emitted = false;
            let e = g.can_emit(OpcodeKind::$op);
            kani::cover!(e);
            std::mem::forget(g);
        }
    };
}

include!("gen_guard.rs");
