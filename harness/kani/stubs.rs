//! Environment stubs (DESIGN.md §2.3).  Each is applied only by the harnesses that name it.
//!
//! `cfg(test)` distinguishes the two ways a harness body is executed: under `cargo kani` (symbolic, stubs
//! applied, `cfg(test)` off) and under `cargo kani playback` (native replay of a solver assignment: real
//! std/hashbrown/rand, **no** stubs, `cfg(test)` on).
use rand_chacha::ChaCha8Rng;

// ---- PRNG: the ChaCha core becomes an arbitrary word stream ----------------------------------------
//
// The stream is drawn up front (`fresh_rng`) so that a counterexample can be replayed natively: in
// playback the same words are written into the real generator's output buffer (`inject`), and the
// unmodified rand/rand_core code then consumes them exactly as the stubs below model it
// (next_u32: one word; next_u64: two words, low first; fill_bytes: one word per started 4-byte chunk).

pub const NW: usize = 16;

/// All mutable harness state lives in structs with a distinctive non-zero tag: Kani 0.68 merges a
/// zero-initialised `static mut` scalar with other all-zero constant allocations (observed: writing such a
/// static changed `Vec::new()`'s capacity constant and produced spurious `__rust_dealloc` failures).
pub struct RngWords {
    pub tag: u64,
    pub pos: usize,
    pub words: [u32; NW],
}
pub static mut RNGW: RngWords = RngWords { tag: 0x524e_4757_4f52_4453, pos: 0, words: [0; NW] };

fn take_word() -> u32 {
    unsafe {
        let i = RNGW.pos;
        RNGW.pos = i + 1;
        if i < NW {
            RNGW.words[i]
        } else {
            // beyond the pre-drawn prefix: still arbitrary (sound), but not replayable natively
            kani::any()
        }
    }
}

pub fn rng_any_u32(_: &mut ChaCha8Rng) -> u32 {
    take_word()
}
pub fn rng_any_u64(_: &mut ChaCha8Rng) -> u64 {
    let lo = take_word() as u64;
    let hi = take_word() as u64;
    (hi << 32) | lo
}
pub fn rng_any_fill(_: &mut ChaCha8Rng, dest: &mut [u8]) {
    let mut i = 0;
    while i < dest.len() {
        let w = take_word().to_le_bytes();
        let mut k = 0;
        while k < 4 && i < dest.len() {
            dest[i] = w[k];
            i += 1;
            k += 1;
        }
    }
}

/// A generator whose next `NW` output words are arbitrary.
#[cfg(not(test))]
pub fn fresh_rng() -> ChaCha8Rng {
    let w: [u32; NW] = kani::any();
    unsafe {
        RNGW.words = w;
        RNGW.pos = 0;
        // never read: every RngCore method is stubbed in the harnesses that use it
        std::mem::zeroed()
    }
}

#[cfg(test)]
pub fn fresh_rng() -> ChaCha8Rng {
    let w: [u32; NW] = kani::any();
    inject(&w)
}

/// Native replay only: a real ChaCha8Rng whose buffered output block starts with `words`.
/// The private `results`/`index` fields of rand_core's BlockRng are located by content, not by layout.
#[cfg(test)]
fn inject(words: &[u32; NW]) -> ChaCha8Rng {
    use rand::{RngCore, SeedableRng};
    let mut rng = ChaCha8Rng::seed_from_u64(0);
    let w0 = rng.next_u32(); // block generated, index == 1
    let mut probe = rng.clone();
    let mut blk = [0u32; 64];
    blk[0] = w0;
    for i in 1..64 {
        blk[i] = probe.next_u32();
    }
    let mut a = rng.clone();
    a.next_u32(); // index == 2
    let size = std::mem::size_of::<ChaCha8Rng>();
    unsafe {
        let raw = std::slice::from_raw_parts_mut(&mut rng as *mut ChaCha8Rng as *mut u8, size);
        let rawa = std::slice::from_raw_parts(&a as *const ChaCha8Rng as *const u8, size);
        let needle: Vec<u8> = blk.iter().flat_map(|w| w.to_ne_bytes()).collect();
        let off = (0..=size - 256)
            .find(|&o| raw[o..o + 256] == needle[..])
            .expect("results buffer not found");
        let ioff = (0..=size - 8)
            .step_by(8)
            .find(|&o| {
                usize::from_ne_bytes(raw[o..o + 8].try_into().unwrap()) == 1
                    && usize::from_ne_bytes(rawa[o..o + 8].try_into().unwrap()) == 2
            })
            .expect("index field not found");
        for (i, w) in words.iter().enumerate() {
            raw[off + 4 * i..off + 4 * i + 4].copy_from_slice(&w.to_ne_bytes());
        }
        raw[ioff..ioff + 8].copy_from_slice(&0usize.to_ne_bytes());
    }
    rng
}

/// same word stream again from the start (second run of a determinism harness)
pub fn rewind_rng() {
    unsafe {
        RNGW.pos = 0;
    }
}
/// `ChaCha8Rng::from_seed` for determinism harnesses: the word stream is a function of the harness, not redrawn
#[cfg(not(test))]
pub fn seed_same_stream(_seed: [u8; 32]) -> ChaCha8Rng {
    rewind_rng();
    unsafe { std::mem::zeroed() }
}
#[cfg(test)]
pub fn seed_same_stream(seed: [u8; 32]) -> ChaCha8Rng {
    use rand::SeedableRng;
    ChaCha8Rng::from_seed(seed)
}
