//! Family PURITY (C07, reduced scope): generation is a function of configuration and entropy.
//! Two runs with equal configuration and equal entropy must return equal bytes, and — the part only a
//! symbolic executor sees — no OS-entropy constructor, clock, syscall, FFI call or inline asm may be reachable
//! on a seeded or fuzzer-bytes path: Kani reports every such construct as a failed check.  The unseeded
//! `generate()` is kept as a must-fail twin (it reaches getrandom): if it ever verifies, the detector is broken.
//! Native replay runs the two calls for real and compares the bytes.
use super::common::*;
use super::emit::*;
use super::guard::*;
use super::head::*;
use super::stubs::*;
use crate::generator::source::GenerationSource;
use crate::generator::Generator;
use crate::opcodes::OpcodeKind;
use arbitrary::Unstructured;

fn same(a: &[u8], b: &[u8]) {
    assert!(a.len() == b.len(), "two runs with equal configuration and entropy differ (length)");
    let n = a.len();
    crate::vk_unroll!(i in [0,1,2,3,4,5,6,7,8,9,10,11,12,13,14,15,16,17,18,19,20,21,22,23] {
        if i < n {
            assert!(a[i] == b[i], "two runs with equal configuration and entropy differ (bytes)");
        }
    });
}

macro_rules! head_like {
    ($(#[$m:meta])* fn $name:ident() $body:block) => {
        #[kani::proof]
        #[kani::stub(std::hash::RandomState::new, rs_conc)]
        #[kani::stub(std::rc::Rc::drop_slow, rc_drop_slow_noop)]
        #[kani::stub(Generator::get_valid_opcodes, c_get_valid_opcodes)]
        #[kani::stub(Generator::emit_and_process, c_emit_and_process)]
        #[kani::stub(Generator::cleanup_for_stop, c_cleanup_for_stop)]
        $(#[$m])*
        fn $name() $body
    };
}

head_like! {
    #[kani::unwind(10)]
    #[kani::stub(<rand_chacha::ChaCha8Rng as rand::SeedableRng>::from_seed, seed_same_stream)]
    #[kani::stub(<rand_chacha::ChaCha8Rng as rand::RngCore>::next_u32, rng_any_u32)]
    #[kani::stub(<rand_chacha::ChaCha8Rng as rand::RngCore>::next_u64, rng_any_u64)]
    fn purity_seeded_generate() {
        let p = any_proto();
        let seed: u64 = kani::any();
        let _stream = fresh_rng(); // draws the word stream once; both runs read it from the start
        std::mem::forget(_stream);
        head_reset_deterministic(p);
        let mut g1 = Generator::new(version_of(p)).with_opcode_range(1, 1).with_seed(seed);
        let a = g1.generate();
        head_reset_deterministic(p);
        let mut g2 = Generator::new(version_of(p)).with_opcode_range(1, 1).with_seed(seed);
        let b = g2.generate();
        assert!(a.is_ok() && b.is_ok());
        let (a, b) = (a.unwrap(), b.unwrap());
        same(&a, &b);
        kani::cover!(a.len() > 11);
        std::mem::forget(a);
        std::mem::forget(b);
        std::mem::forget(g1);
        std::mem::forget(g2);
    }
}

head_like! {
    #[kani::unwind(6)]
    fn purity_arbitrary_generate() {
        let p = any_proto();
        let data: [u8; 2] = kani::any();
        let len: usize = kani::any();
        kani::assume(len <= 2);
        head_reset_deterministic(p);
        let mut g1 = Generator::new(version_of(p)).with_opcode_range(1, 1);
        let a = g1.generate_from_arbitrary(&data[..len]);
        head_reset_deterministic(p);
        let mut g2 = Generator::new(version_of(p)).with_opcode_range(1, 1);
        let b = g2.generate_from_arbitrary(&data[..len]);
        assert!(a.is_ok() && b.is_ok());
        let (a, b) = (a.unwrap(), b.unwrap());
        same(&a, &b);
        kani::cover!(a.len() > 11);
        std::mem::forget(a);
        std::mem::forget(b);
        std::mem::forget(g1);
        std::mem::forget(g2);
    }
}

// must-fail twin: without a seed generate() constructs its PRNG from OS entropy (getrandom -> syscall/dlsym)
head_like! {
    #[kani::unwind(10)]
    #[kani::stub(<rand_chacha::ChaCha8Rng as rand::RngCore>::next_u32, rng_any_u32)]
    #[kani::stub(<rand_chacha::ChaCha8Rng as rand::RngCore>::next_u64, rng_any_u64)]
    fn purity_unseeded_mustfail() {
        let p = any_proto();
        head_reset_deterministic(p);
        let mut g1 = Generator::new(version_of(p)).with_opcode_range(0, 0);
        let a = g1.generate();
        assert!(a.is_ok());
        std::mem::forget(a);
        std::mem::forget(g1);
    }
}

// ---- emitters: the same emission twice from equal state and entropy --------------------------------------
macro_rules! purity_emit {
    ($name:ident, $op:ident, $p:expr, $unw:expr, $lead:expr, $dlen:expr) => {
        #[kani::proof]
        #[kani::unwind($unw)]
        #[kani::stub(std::hash::RandomState::new, rs_conc)]
        #[kani::stub(std::rc::Rc::drop_slow, rc_drop_slow_noop)]
        #[kani::stub(std::collections::HashMap::len, hm_len_any)]
        #[kani::stub(std::collections::HashMap::is_empty, hm_is_empty_any)]
        #[kani::stub(Generator::process_stack_ops, c_pso)]
        #[kani::stub(Generator::get_random_module, module_contract_fixed)]
        fn $name() {
            let p: u8 = $p;
            let m: usize = kani::any();
            kani::assume(m <= 200);
            unsafe {
                MEMO.m = m;
            }
            let mut data: [u8; $dlen] = kani::any();
            let lead: &[u8] = &$lead;
            crate::vk_unroll!(i in [0, 1, 2, 3] {
                if i < lead.len() && i < $dlen {
                    data[i] = lead[i];
                }
            });
            let mut g1 = Generator::new(version_of(p));
            let mut g2 = Generator::new(version_of(p));
            #[cfg(test)]
            {
                let mut j = 0;
                while j < m {
                    g1.put(j, crate::stack::StackObject::None);
                    g2.put(j, crate::stack::StackObject::None);
                    j += 1;
                }
            }
            {
                let mut u = Unstructured::new(&data);
                let mut s = GenerationSource::Arbitrary(&mut u);
                let r = g1.emit_and_process(OpcodeKind::$op, &mut s);
                assert!(r.is_ok());
            }
            {
                let mut u = Unstructured::new(&data);
                let mut s = GenerationSource::Arbitrary(&mut u);
                let r = g2.emit_and_process(OpcodeKind::$op, &mut s);
                assert!(r.is_ok());
            }
            same(&g1.output, &g2.output);
            kani::cover!(g1.output.len() >= 1);
            std::mem::forget(g1);
            std::mem::forget(g2);
        }
    };
}
/// deterministic variant of the get_random_module contract (a function of nothing)
pub fn module_contract_fixed(_g: &Generator, _s: &mut GenerationSource) -> color_eyre::Result<String> {
    Ok(unsafe { String::from_utf8_unchecked(vec![b'm', b'\n', b'a', b'\n']) })
}
purity_emit!(purity_emit_binint1, BinInt, 1, 40, [3u8], 8);
purity_emit!(purity_emit_binfloat, BinFloat, 1, 10, [0u8; 0], 12);
purity_emit!(purity_emit_binbytes, BinBytes, 3, 8, [1u8], 4);
purity_emit!(purity_emit_global, Global, 0, 8, [0u8; 0], 4);
purity_emit!(purity_emit_ext2, Ext2, 2, 8, [0u8; 0], 4);
purity_emit!(purity_emit_long_binput, LongBinPut, 1, 8, [0u8; 0], 4);
purity_emit!(purity_emit_none, None, 0, 4, [0u8; 0], 2);

// ---- no state is carried between generators of different protocols (process-wide caches) -------------------------
// A protocol-2 generator emits an integer first, then a protocol-0 generator does: the second emission must still be
// an opcode of protocol 0 (and 7-bit ASCII).  Statics such as `OnceLock` caches live across both calls inside one harness.
#[kani::proof]
#[kani::unwind(58)]
#[kani::stub(std::hash::RandomState::new, rs_conc)]
#[kani::stub(std::rc::Rc::drop_slow, rc_drop_slow_noop)]
#[kani::stub(Generator::process_stack_ops, c_pso)]
fn purity_crossgen_int_p2_then_p0() {
    let d1: [u8; 2] = kani::any();
    let d2: [u8; 2] = kani::any();
    let mut g1 = Generator::new(version_of(2));
    {
        let mut u = Unstructured::new(&d1);
        let mut s = GenerationSource::Arbitrary(&mut u);
        assert!(g1.emit_and_process(OpcodeKind::BinInt, &mut s).is_ok());
    }
    let mut g2 = Generator::new(version_of(0));
    {
        let mut u = Unstructured::new(&d2);
        let mut s = GenerationSource::Arbitrary(&mut u);
        assert!(g2.emit_and_process(OpcodeKind::Int, &mut s).is_ok());
    }
    assert!(g2.output.len() >= 1);
    let b = g2.output[0];
    assert!(b == super::ref_table::REF_OPS[super::ref_table::I_INT].code || b == super::ref_table::REF_OPS[super::ref_table::I_LONG].code,
            "a protocol-0 generator emitted an integer opcode outside protocol 0 after another generator ran (state carried between generators)");
    kani::cover!(true);
    std::mem::forget(g1);
    std::mem::forget(g2);
}
