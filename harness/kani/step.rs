//! Family STEP (C17, C01, C02, C03, C09): one real `process_stack_ops(op, args)` from every abstract state of a
//! given depth in which the generator may choose `op` (`can_emit(op)` assumed; GUARD shows that implies the
//! reference precondition), compared with the reference machine's step: same depth, MARKs in the same slots,
//! slot-wise compatible kinds, same memo index set, output untouched.
//!
//! PUT/GET/MEMOIZE arms: the memo table is a shadow (contracts for `Generator::{get,put}`, symbolic size via the
//! `HashMap::len` stub) under `cargo kani`, and a real table under native playback.
use super::common::*;
use super::guard::*;
use super::ref_dis::*;
use super::ref_table::*;
use crate::generator::Generator;
use crate::opcodes::OpcodeKind;
use crate::stack::{InstanceObject, StackObject, StackObjectRef};

pub struct PutRec {
    pub tag: u64,
    pub puts: usize,
    pub idx: usize,
    pub kind: u8,
}
pub static mut PUTS: PutRec = PutRec { tag: 0x5055_5453_5f53_5421, puts: 0, idx: 0, kind: 0 };
pub fn c_put(_g: &mut Generator, index: usize, value: StackObject) {
    unsafe {
        PUTS.puts += 1;
        PUTS.idx = index;
        PUTS.kind = abs_kind(&value);
    }
    std::mem::forget(value);
}
pub fn c_get(_g: &Generator, index: usize) -> Option<&StackObjectRef> {
    unsafe {
        if index < MEMO.m {
            let c = if index < MAXM { MEMO.codes[index] } else { 3 };
            Some(Box::leak(Box::new(StackObjectRef::new(mk(c)))))
        } else {
            None
        }
    }
}

fn code_of(o: &StackObject) -> u8 {
    match o {
        StackObject::Int(_) => 0,
        StackObject::Float(_) => 1,
        StackObject::Bool(_) => 2,
        StackObject::None => 3,
        StackObject::Bytes(_) => 4,
        StackObject::String(_) => 5,
        StackObject::ByteArray(_) => 6,
        StackObject::List(_) => 7,
        StackObject::Tuple(_) => 8,
        StackObject::Dict(_) => 9,
        StackObject::Set(_) => 10,
        StackObject::FrozenSet(_) => 11,
        StackObject::Mark => 12,
        StackObject::Global { .. } => 13,
        StackObject::Instance(_) => 14,
        StackObject::Callable(_) => 15,
        StackObject::Extension(_) => 16,
        StackObject::Any => 17,
    }
}
/// variant-preserving clone with canonical payload (the derived clone reaches hashbrown's clone_from_impl)
pub fn so_clone_flat(o: &StackObject) -> StackObject {
    mk(code_of(o))
}

pub fn f64_from_str_any(_s: &str) -> Result<f64, std::num::ParseFloatError> {
    // the error type cannot be constructed; the Float arm only needs *a* value
    Ok(kani::any())
}

/// relation R on the stack component
pub fn compare_stack(g: &Generator, r: &RefState) {
    let n = g.state.stack.inner.len();
    assert!(n == r.n, "simulated stack depth differs from the reference machine");
    macro_rules! slot {
        ($($i:expr),*) => { $( if $i < n {
            let k = abs_kind(&*g.state.stack.inner[$i].borrow());
            assert!((k == K_MARK) == (r.k[$i] == K_MARK), "MARK positions differ from the reference machine");
            assert!(compat(k, r.k[$i]), "slot kind incompatible with the reference machine");
        } )* };
    }
    slot!(0, 1, 2, 3, 4, 5, 6, 7);
}

/// memo component: (size, number of new entries, index and kind of the new entry)
#[cfg(not(test))]
pub fn memo_delta(_g: &Generator, m0: usize) -> (usize, usize, u8) {
    unsafe { (PUTS.puts, PUTS.idx, PUTS.kind) }
}
#[cfg(test)]
pub fn memo_delta(g: &Generator, m0: usize) -> (usize, usize, u8) {
    let m1 = g.state.memo.len();
    if m1 == m0 {
        return (0, 0, K_ANY);
    }
    // the new key is the one >= m0 (keys were 0..m0)
    let mut idx = m0;
    for k in g.state.memo.keys() {
        if *k >= m0 {
            idx = *k;
        }
    }
    let kind = abs_kind(&*g.state.memo.get(&idx).unwrap().borrow());
    (m1 - m0, idx, kind)
}

pub fn build_step(n: usize) -> (Generator, RefState) {
    let (g, rs) = build(n, MAXM);
    unsafe {
        PUTS.puts = 0;
    }
    (g, rs)
}

macro_rules! step_h {
    ($name:ident, $op:ident, $n:expr, $unw:expr, $arg:expr, $memoarg:expr) => {
        #[kani::proof]
        #[kani::unwind($unw)]
        #[kani::stub(std::hash::RandomState::new, rs_conc)]
        #[kani::stub(std::rc::Rc::drop_slow, rc_drop_slow_noop)]
        #[kani::stub(std::collections::HashMap::len, hm_len_any)]
        #[kani::stub(std::collections::HashMap::is_empty, hm_is_empty_any)]
        #[kani::stub(std::collections::HashMap::insert, hm_insert_forget)]
        #[kani::stub(std::collections::HashSet::insert, hs_insert_forget)]
        #[kani::stub(<StackObject as std::clone::Clone>::clone, so_clone_flat)]
        #[kani::stub(<f64 as std::str::FromStr>::from_str, f64_from_str_any)]
        #[kani::stub(Generator::put, c_put)]
        #[kani::stub(Generator::get, c_get)]
        fn $name() {
            let (mut g, rs) = build_step($n);
            let op = OpcodeKind::$op;
            let i = ref_index(op);
            kani::assume(safe_mode(&g)); // the simulation relation is a safe-mode property (C17)
            kani::assume(g.can_emit(op));
            let out_len = g.output.len();
            // argument bytes: well formed for the opcode (what EMIT shows the emitters pass)
            let m = rs.m;
            let memoarg: usize = $memoarg(m);
            let argv: Option<Vec<u8>> = $arg(m, memoarg);
            g.process_stack_ops(op, argv.as_deref());
            let rs2 = step(i, &rs, memoarg);
            compare_stack(&g, &rs2);
            assert!(g.state.stack.inner.len() <= $n + 1, "one opcode grows the stack by at most one");
            assert!(g.output.len() == out_len, "process_stack_ops must not touch the output");
            let (puts, idx, kind) = memo_delta(&g, m);
            if rs2.m == m {
                assert!(puts == 0, "memo index set differs from the reference machine (unexpected store)");
            } else {
                assert!(puts == 1 && idx == m, "memo index set differs from the reference machine");
                assert!(compat(kind, rs.top().unwrap_or(K_ANY)), "memoized kind differs from the reference machine");
            }
            kani::cover!(true);
            std::mem::forget(argv);
            std::mem::forget(g);
        }
    };
}

/// Several value-pushing opcodes applied one after the other to the same generator (quick tier: one query instead of
/// one per opcode — Kani's per-harness overhead dominates these small steps).  After every step the whole relation is
/// re-checked, so step k starts from the (checked) post-state of step k-1 on top of a symbolic slot.
macro_rules! step_chain {
    ($name:ident, $unw:expr, [$(($op:ident, $arg:expr)),*]) => {
        #[kani::proof]
        #[kani::unwind($unw)]
        #[kani::stub(std::hash::RandomState::new, rs_conc)]
        #[kani::stub(std::rc::Rc::drop_slow, rc_drop_slow_noop)]
        #[kani::stub(std::collections::HashMap::len, hm_len_any)]
        #[kani::stub(std::collections::HashMap::is_empty, hm_is_empty_any)]
        #[kani::stub(<f64 as std::str::FromStr>::from_str, f64_from_str_any)]
        #[kani::stub(Generator::put, c_put)]
        #[kani::stub(Generator::get, c_get)]
        fn $name() {
            let (mut g, rs0) = build_step(1);
            kani::assume(safe_mode(&g));
            let mut rs = rs0;
            let m = rs.m;
            $( {
                let op = OpcodeKind::$op;
                let i = ref_index(op);
                assert!(g.can_emit(op) || i == I_EXT1 || i == I_EXT2 || i == I_EXT4 || i == I_NEXT_BUFFER,
                        concat!("value-pushing opcode is not enabled [", stringify!($op), "]"));
                let depth0 = g.state.stack.inner.len();
                let argv: Option<Vec<u8>> = $arg(m, 0);
                g.process_stack_ops(op, argv.as_deref());
                rs = step(i, &rs, 0);
                compare_stack(&g, &rs);
                assert!(g.state.stack.inner.len() == depth0 + 1, concat!("value-pushing opcode must push exactly one object [", stringify!($op), "]"));
                std::mem::forget(argv);
            } )*
            assert!(unsafe { PUTS.puts } == 0, "memo index set differs from the reference machine (unexpected store)");
            assert!(g.output.len() == 0, "process_stack_ops must not touch the output");
            kani::cover!(true);
            std::mem::forget(g);
        }
    };
}
step_chain!(step_chain_consts, 10, [(Mark, a_none), (EmptyTuple, a_none), (None, a_none), (EmptyList, a_none), (EmptyDict, a_none), (NewTrue, a_none)]);
step_chain!(step_chain_consts2, 10, [(NewFalse, a_none), (EmptySet, a_none), (NextBuffer, a_none), (Ext1, a_bytes1), (Ext2, a_bytes2), (Ext4, a_bytes4)]);
step_chain!(step_chain_ints_bin, 10, [(BinInt, a_bytes4), (BinInt1, a_bytes1), (BinInt2, a_bytes2), (Long1, a_long1), (Long4, a_long4)]);
// (INT and LONG parse decimal text and stay one query each: chained with the others the query took 10 min)
step_chain!(step_chain_floats_bytes, 10, [(Float, a_float_nl), (BinFloat, a_bytes8), (BinBytes, a_payload), (ShortBinBytes, a_payload), (BinBytes8, a_payload), (ByteArray8, a_payload)]);
step_chain!(step_chain_bytes2, 10, [(BinString, a_payload), (ShortBinString, a_payload)]);
// (the text opcodes STRING, UNICODE, *BINUNICODE*, PERSID go through from_utf8_lossy and stay one query each: chained they time out)

// argument builders: fn(m, memoarg) -> Option<Vec<u8>>
fn a_none(_m: usize, _a: usize) -> Option<Vec<u8>> {
    None
}
fn a_bytes1(_m: usize, _a: usize) -> Option<Vec<u8>> {
    let b: [u8; 1] = kani::any();
    Some(b.to_vec())
}
fn a_bytes2(_m: usize, _a: usize) -> Option<Vec<u8>> {
    let b: [u8; 2] = kani::any();
    Some(b.to_vec())
}
fn a_bytes4(_m: usize, _a: usize) -> Option<Vec<u8>> {
    let b: [u8; 4] = kani::any();
    Some(b.to_vec())
}
fn a_bytes8(_m: usize, _a: usize) -> Option<Vec<u8>> {
    let b: [u8; 8] = kani::any();
    Some(b.to_vec())
}
fn a_payload(_m: usize, _a: usize) -> Option<Vec<u8>> {
    // payload of a length-prefixed opcode: the emitters pass the payload without its prefix
    let b: [u8; 2] = kani::any();
    Some(vec![b[0], b[1]])
}
fn a_empty(_m: usize, _a: usize) -> Option<Vec<u8>> {
    Some(Vec::new())
}
fn a_digit_nl(_m: usize, _a: usize) -> Option<Vec<u8>> {
    let d: u8 = kani::any();
    kani::assume(d >= b'0' && d <= b'9');
    Some(vec![d, b'\n'])
}
fn a_digit_l_nl(_m: usize, _a: usize) -> Option<Vec<u8>> {
    let d: u8 = kani::any();
    kani::assume(d >= b'0' && d <= b'9');
    Some(vec![d, b'L', b'\n'])
}
fn a_long1(_m: usize, _a: usize) -> Option<Vec<u8>> {
    let b: [u8; 4] = kani::any();
    Some(vec![4, b[0], b[1], b[2], b[3]])
}
fn a_long4(_m: usize, _a: usize) -> Option<Vec<u8>> {
    let b: [u8; 4] = kani::any();
    Some(vec![4, 0, 0, 0, b[0], b[1], b[2], b[3]])
}
fn a_float_nl(_m: usize, _a: usize) -> Option<Vec<u8>> {
    Some(vec![b'1', b'\n'])
}
fn a_names(_m: usize, _a: usize) -> Option<Vec<u8>> {
    Some(vec![b'a', b'\n', b'b', b'\n'])
}
fn a_line(_m: usize, _a: usize) -> Option<Vec<u8>> {
    let c: u8 = kani::any();
    kani::assume(c >= 0x20 && c < 0x7f);
    Some(vec![c, b'\n'])
}
fn a_memo_dec(_m: usize, a: usize) -> Option<Vec<u8>> {
    // decimal of a one-digit index
    Some(vec![b'0' + (a as u8), b'\n'])
}
fn a_memo_u8(_m: usize, a: usize) -> Option<Vec<u8>> {
    Some(vec![a as u8])
}
fn a_memo_u32(_m: usize, a: usize) -> Option<Vec<u8>> {
    Some((a as u32).to_le_bytes().to_vec())
}
// memo argument choosers: fn(m) -> index
fn m_none(_m: usize) -> usize {
    0
}
fn m_fresh(m: usize) -> usize {
    m
}
fn m_existing(m: usize) -> usize {
    let a: usize = kani::any();
    kani::assume(a < m);
    a
}

include!("gen_step.rs");
