//! Reference lexer: one opcode + argument from a byte buffer, per CPython pickletools' argument readers, with the
//! domain rules property C04 names (quoted STRING, parseable decimal/float literals, length prefixes that fit,
//! EXT codes >= 1 as decoded, non-negative memo indices).  Independent of /repo/src.
//! Loops are bounded by `MAXLINE` so the lexer can run under Kani as well as natively.
use super::ref_table::*;

pub const MAXLINE: usize = 80;

#[derive(Clone, Copy)]
pub struct Lexeme {
    /// index into REF_OPS
    pub op: usize,
    /// argument bytes are buf[arg_start..end]
    pub arg_start: usize,
    /// position after the lexeme
    pub end: usize,
    /// decoded numeric argument where there is one (memo index, EXT code, PROTO version, FRAME length, payload length)
    pub num: u64,
}

fn op_of(code: u8) -> Option<usize> {
    let i = CODE2IDX[code as usize];
    if i == 255 {
        None
    } else {
        Some(i as usize)
    }
}

fn le(buf: &[u8], at: usize, n: usize) -> Option<u64> {
    if at + n > buf.len() {
        return None;
    }
    let mut v: u64 = 0;
    let mut i = 0;
    while i < n {
        v |= (buf[at + i] as u64) << (8 * i);
        i += 1;
    }
    Some(v)
}

/// position of the next b'\n' at or after `at` (the line is buf[at..pos])
fn line_end(buf: &[u8], at: usize, maxline: usize) -> Option<usize> {
    // fixed trip count (`maxline` is concrete at every call site): CBMC unrolls exactly that many iterations
    let mut found: Option<usize> = None;
    let mut steps = 0;
    while steps < maxline {
        let i = at + steps;
        if found.is_none() && i < buf.len() && buf[i] == b'\n' {
            found = Some(i);
        }
        steps += 1;
    }
    found
}

fn is_digit(b: u8) -> bool {
    b >= b'0' && b <= b'9'
}

/// Python `int(s)` on ASCII bytes (no underscores/whitespace produced by a generator are accepted here:
/// optional sign, at least one digit, digits only).  Returns (negative, magnitude saturated).
fn parse_decimal(s: &[u8]) -> Option<(bool, u64)> {
    let mut i = 0;
    let mut neg = false;
    if i < s.len() && (s[i] == b'-' || s[i] == b'+') {
        neg = s[i] == b'-';
        i += 1;
    }
    if i >= s.len() {
        return None;
    }
    let mut v: u64 = 0;
    while i < s.len() {
        if !is_digit(s[i]) {
            return None;
        }
        v = v.saturating_mul(10).saturating_add((s[i] - b'0') as u64);
        i += 1;
    }
    Some((neg, v))
}

/// `codecs.escape_decode` accepts the line: no trailing lone backslash, `\x` followed by two hex digits.
/// (Unknown escapes such as `\q` are accepted by CPython 3.11 with a DeprecationWarning.)  Bytes must be ASCII.
fn escape_ok(s: &[u8]) -> bool {
    let mut i = 0;
    while i < s.len() {
        if s[i] >= 0x80 {
            return false;
        }
        if s[i] == b'\\' {
            if i + 1 >= s.len() {
                return false;
            }
            if s[i + 1] == b'x' {
                if i + 3 >= s.len() || !is_hex(s[i + 2]) || !is_hex(s[i + 3]) {
                    return false;
                }
                i += 4;
                continue;
            }
            i += 2;
            continue;
        }
        i += 1;
    }
    true
}

fn is_hex(b: u8) -> bool {
    is_digit(b) || (b >= b'a' && b <= b'f') || (b >= b'A' && b <= b'F')
}

/// STRING argument: quoted with the same quote at both ends, valid escapes inside, and — what a *repr* needs so
/// that the literal means one string — no unescaped occurrence of the delimiting quote inside.
fn quoted_ok(s: &[u8]) -> bool {
    if s.len() < 2 {
        return false;
    }
    let q = s[0];
    if (q != b'\'' && q != b'"') || s[s.len() - 1] != q {
        return false;
    }
    let inner = &s[1..s.len() - 1];
    if !escape_ok(inner) {
        return false;
    }
    let mut i = 0;
    while i < inner.len() {
        if inner[i] == b'\\' {
            i += 2;
            continue;
        }
        if inner[i] == q {
            return false;
        }
        i += 1;
    }
    true
}

/// raw-unicode-escape accepts the line: every `\u` (preceded by an odd-length backslash run) is followed by 4
/// hex digits, every `\U` by 8 hex digits forming a code point <= 0x10ffff.
fn raw_unicode_ok(s: &[u8]) -> bool {
    let mut i = 0;
    while i < s.len() {
        if s[i] == b'\\' {
            // count the run of backslashes
            let mut j = i;
            while j < s.len() && s[j] == b'\\' {
                j += 1;
            }
            let run = j - i;
            if run % 2 == 1 && j < s.len() && (s[j] == b'u' || s[j] == b'U') {
                let need = if s[j] == b'u' { 4 } else { 8 };
                let mut k = 0;
                while k < need {
                    if j + 1 + k >= s.len() || !is_hex(s[j + 1 + k]) {
                        return false;
                    }
                    k += 1;
                }
                if need == 8 {
                    // code point range: first two hex digits must be 00, third <= 1 (and 10ffff bound)
                    let d = &s[j + 1..j + 9];
                    if d[0] != b'0' || d[1] != b'0' || !(d[2] == b'0' || (d[2] == b'1' && d[3] == b'0')) {
                        return false;
                    }
                }
                i = j + 1 + need;
                continue;
            }
            i = j;
            continue;
        }
        i += 1;
    }
    true
}

/// Python `float(s)` accepts the ASCII line (decimal literal with optional exponent, or inf/nan/infinity).
fn float_ok(s: &[u8]) -> bool {
    let mut i = 0;
    if i < s.len() && (s[i] == b'-' || s[i] == b'+') {
        i += 1;
    }
    let rest = &s[i..];
    if eq_ci(rest, b"inf") || eq_ci(rest, b"infinity") || eq_ci(rest, b"nan") {
        return true;
    }
    let mut digits = 0;
    while i < s.len() && is_digit(s[i]) {
        i += 1;
        digits += 1;
    }
    if i < s.len() && s[i] == b'.' {
        i += 1;
        while i < s.len() && is_digit(s[i]) {
            i += 1;
            digits += 1;
        }
    }
    if digits == 0 {
        return false;
    }
    if i < s.len() && (s[i] == b'e' || s[i] == b'E') {
        i += 1;
        if i < s.len() && (s[i] == b'-' || s[i] == b'+') {
            i += 1;
        }
        let mut ed = 0;
        while i < s.len() && is_digit(s[i]) {
            i += 1;
            ed += 1;
        }
        if ed == 0 {
            return false;
        }
    }
    i == s.len()
}

fn eq_ci(a: &[u8], b: &[u8]) -> bool {
    if a.len() != b.len() {
        return false;
    }
    let mut i = 0;
    while i < a.len() {
        let x = if a[i] >= b'A' && a[i] <= b'Z' { a[i] + 32 } else { a[i] };
        if x != b[i] {
            return false;
        }
        i += 1;
    }
    true
}

fn utf8_ok(s: &[u8]) -> bool {
    // ASCII fast path with a plain bounded loop (std's validator is expensive under CBMC)
    let mut ascii = true;
    let mut i = 0;
    while i < s.len() {
        if s[i] >= 0x80 {
            ascii = false;
        }
        i += 1;
    }
    if ascii {
        return true;
    }
    non_ascii_utf8_ok(s)
}

#[cfg(test)]
fn non_ascii_utf8_ok(s: &[u8]) -> bool {
    std::str::from_utf8(s).is_ok()
}
/// Under Kani a non-ASCII text payload is reported as not well formed rather than validated: the generator's
/// alphabets are ASCII (ENT, assumption A2), so this can only raise an alarm, never hide one; the native replay
/// (which runs the full validator) then decides.
#[cfg(not(test))]
fn non_ascii_utf8_ok(_s: &[u8]) -> bool {
    false
}

/// Lex one opcode with its argument at `pos`.  `None` = the stream is not well formed there.
pub fn lex_one(buf: &[u8], pos: usize) -> Option<Lexeme> {
    lex_one_bounded(buf, pos, MAXLINE)
}

/// as `lex_one`, with newline-terminated arguments limited to `maxline` bytes (keeps Kani's unwinding small)
pub fn lex_one_bounded(buf: &[u8], pos: usize, maxline: usize) -> Option<Lexeme> {
    if pos >= buf.len() {
        return None;
    }
    let op = op_of(buf[pos])?;
    lex_with_op(buf, pos, op, maxline)
}

/// lex the argument of opcode `op` (index into REF_OPS) whose opcode byte is at `pos`; the caller has checked
/// the opcode byte.  With a concrete `op` only the matching argument reader is explored under Kani.
pub fn lex_with_op(buf: &[u8], pos: usize, op: usize, maxline: usize) -> Option<Lexeme> {
    if pos >= buf.len() {
        return None;
    }
    let a = pos + 1;
    let kind = REF_OPS[op].arg;
    let mut num: u64 = 0;
    let end;
    if kind == A_NONE {
        end = a;
    } else if kind == A_UINT1 {
        num = le(buf, a, 1)?;
        end = a + 1;
    } else if kind == A_UINT2 {
        num = le(buf, a, 2)?;
        end = a + 2;
    } else if kind == A_UINT4 {
        num = le(buf, a, 4)?;
        end = a + 4;
    } else if kind == A_INT4 {
        num = le(buf, a, 4)?;
        end = a + 4;
    } else if kind == A_UINT8 {
        num = le(buf, a, 8)?;
        end = a + 8;
    } else if kind == A_FLOAT8 {
        le(buf, a, 8)?;
        end = a + 8;
    } else if kind == A_LONG1 || kind == A_STRING1 || kind == A_BYTES1 || kind == A_UNICODESTRING1 {
        num = le(buf, a, 1)?;
        end = a + 1 + num as usize;
        if end > buf.len() {
            return None;
        }
        if kind == A_UNICODESTRING1 && !utf8_ok(&buf[a + 1..end]) {
            return None;
        }
    } else if kind == A_LONG4 || kind == A_STRING4 || kind == A_BYTES4 || kind == A_UNICODESTRING4 {
        num = le(buf, a, 4)?;
        if (kind == A_LONG4 || kind == A_STRING4) && num > 0x7fff_ffff {
            return None; // int4 length is signed: negative
        }
        end = a + 4 + num as usize;
        if end > buf.len() {
            return None;
        }
        if kind == A_UNICODESTRING4 && !utf8_ok(&buf[a + 4..end]) {
            return None;
        }
    } else if kind == A_BYTES8 || kind == A_UNICODESTRING8 || kind == A_BYTEARRAY8 {
        num = le(buf, a, 8)?;
        if num > (buf.len() as u64) {
            return None;
        }
        end = a + 8 + num as usize;
        if end > buf.len() {
            return None;
        }
        if kind == A_UNICODESTRING8 && !utf8_ok(&buf[a + 8..end]) {
            return None;
        }
    } else if kind == A_STRINGNL {
        let e = line_end(buf, a, maxline)?;
        if !quoted_ok(&buf[a..e]) {
            return None;
        }
        end = e + 1;
    } else if kind == A_STRINGNL_NOESCAPE {
        let e = line_end(buf, a, maxline)?;
        if !escape_ok(&buf[a..e]) {
            return None;
        }
        end = e + 1;
    } else if kind == A_STRINGNL_NOESCAPE_PAIR {
        let e1 = line_end(buf, a, maxline)?;
        if !escape_ok(&buf[a..e1]) {
            return None;
        }
        let e2 = line_end(buf, e1 + 1, maxline)?;
        if !escape_ok(&buf[e1 + 1..e2]) {
            return None;
        }
        end = e2 + 1;
    } else if kind == A_UNICODESTRINGNL {
        let e = line_end(buf, a, maxline)?;
        if !raw_unicode_ok(&buf[a..e]) || !utf8_ok(&buf[a..e]) {
            return None;
        }
        end = e + 1;
    } else if kind == A_DECIMALNL_SHORT {
        let e = line_end(buf, a, maxline)?;
        let (neg, v) = parse_decimal(&buf[a..e])?;
        num = v;
        if neg && v != 0 && (op == I_GET || op == I_PUT) {
            return None; // memo indices are non-negative
        }
        end = e + 1;
    } else if kind == A_DECIMALNL_LONG {
        let e = line_end(buf, a, maxline)?;
        let mut s = &buf[a..e];
        if !s.is_empty() && s[s.len() - 1] == b'L' {
            s = &s[..s.len() - 1];
        }
        parse_decimal(s)?;
        end = e + 1;
    } else if kind == A_FLOATNL {
        let e = line_end(buf, a, maxline)?;
        if !float_ok(&buf[a..e]) {
            return None;
        }
        end = e + 1;
    } else {
        return None;
    }
    // domain rules on decoded numbers
    if op == I_EXT1 || op == I_EXT2 {
        if num == 0 {
            return None;
        }
    }
    if op == I_EXT4 {
        // int4 is signed: the code must be >= 1 as the reader decodes it
        if num == 0 || num > 0x7fff_ffff {
            return None;
        }
    }
    if op == I_PROTO && num > 5 {
        return None;
    }
    Some(Lexeme { op, arg_start: a, end, num })
}

/// Lex a whole stream; `None` if it does not decode completely.  Returns the number of opcodes.
pub fn lex_all(buf: &[u8], mut visit: impl FnMut(usize, &Lexeme)) -> Option<usize> {
    let mut pos = 0;
    let mut n = 0;
    while pos < buf.len() {
        let l = lex_one(buf, pos)?;
        visit(n, &l);
        n += 1;
        pos = l.end;
    }
    Some(n)
}
