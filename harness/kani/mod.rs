//! Kani proof harnesses for pickle-fuzzer (grafted into `crate::generator` by /verif/lib/overlay.py).
//! Families are described in /verif/DESIGN.md §4.
#![allow(dead_code, unused_imports, unused_variables, unused_mut, static_mut_refs, non_snake_case)]

pub(crate) mod stubs;
pub mod modelmap;

mod ent;
mod mutg;
pub(crate) mod common;
pub(crate) mod ref_dis;
pub(crate) mod ref_table;
mod tail;
pub(crate) mod ref_lex;
pub(crate) mod head;
pub(crate) mod guard;
pub(crate) mod step;
pub(crate) mod emit;
mod table;
mod mutc;
mod esc_native;
mod purity;
mod oracle_native;
mod memget;
mod mutf;
mod reach;
