//! Family MEMO-GET (C02, C03, C17, C07): the GET-family emitters on a memo table of n = 1..3 entries.
//! The table is the association-list model of `modelmap.rs` (feature `verif_modelmap`): real lookups, inserts and
//! length, **arbitrary iteration order**.  Checked: the emitted index names a defined key (safe mode, also with
//! OffByOne / MemoIndex(safe) firing at any rate), the stack simulation receives exactly the emitted index, the
//! emission is one well-formed lexeme, and — because the order of `keys()` is arbitrary — the result does not
//! depend on it beyond the entropy-chosen position in *sorted* order (two runs with different orders agree).
#![cfg(feature = "verif_modelmap")]
use super::common::*;
use super::emit::*;
use super::ref_lex::*;
use super::ref_table::*;
use crate::generator::source::GenerationSource;
use crate::generator::Generator;
use crate::opcodes::OpcodeKind;
use crate::stack::{StackObject, StackObjectRef};
use arbitrary::Unstructured;

fn filled(p: u8, n: usize, mutk: u8, rate: f64) -> Generator {
    let mut g = Generator::new(version_of(p));
    g.mutation_rate = rate;
    g.unsafe_mutations = mutk == 7;
    install(&mut g, mutk);
    crate::vk_unroll!(j in [0, 1, 2, 3] {
        if j < n {
            // entry j has variant code j (Int, Float, Bool, None): distinct kinds make a wrong index observable natively
            g.state.memo.insert(j, StackObjectRef::new(mk(j as u8)));
        }
    });
    g.output.push(0xAA);
    g.output.push(0x55);
    g
}

/// model of `<[usize]>::sort_unstable` for the tiny tables of this family (std's pattern-defeating quicksort does
/// not finish under CBMC on a vector of symbolic length): exchange sort, loop-free, tables of at most 4 entries
pub fn sort_model<T: Ord>(v: &mut [T]) {
    let n = v.len();
    assert!(n <= 4, "MEMO-GET tables have at most 4 entries");
    crate::vk_unroll!(a in [0, 1, 2] {
        crate::vk_unroll!(b in [0, 1, 2] {
            if b + 1 < n && v[b] > v[b + 1] {
                v.swap(b, b + 1);
            }
        });
        let _ = a;
    });
}

macro_rules! memget_stubs {
    ($(#[$m:meta])* fn $name:ident() $body:block) => {
        #[kani::proof]
        #[kani::stub(std::hash::RandomState::new, rs_conc)]
        #[kani::stub(std::rc::Rc::drop_slow, rc_drop_slow_noop)]
        #[kani::stub(Generator::process_stack_ops, c_pso)]
        #[kani::stub(<[usize]>::sort_unstable, sort_model)]
        $(#[$m])*
        fn $name() $body
    };
}

macro_rules! memget_h {
    ($name:ident, $op:ident, $exact:expr, $n:expr, $mutk:expr, $unw:expr, $maxline:expr) => {
        memget_stubs! {
            #[kani::unwind($unw)]
            fn $name() {
                let p = any_proto();
                kani::assume(REF_OPS[$exact].proto <= p);
                let rate = any_rate();
                let data: [u8; 20] = kani::any();
                let len: usize = kani::any();
                kani::assume(len <= 20);
                let mut g = filled(p, $n, $mutk, rate);
                unsafe {
                    REC.calls = 0;
                }
                {
                    let mut u = Unstructured::new(&data[..len]);
                    let mut src = GenerationSource::Arbitrary(&mut u);
                    let r = g.emit_and_process(OpcodeKind::$op, &mut src);
                    assert!(r.is_ok(), "emission returns Ok");
                }
                let l = check_emission(&g, p, $exact, $exact, 0, false, $maxline);
                if $mutk != 7 {
                    assert!((l.num as usize) < $n, "GET-family opcode names a memo index that was never stored");
                }
                // native replay has no recorder: the real simulation ran, so the object it pushed must be the one
                // stored under the emitted index
                #[cfg(test)]
                {
                    if (l.num as usize) < $n {
                        let top = g.state.stack.inner.last().expect("GET pushes the memoized object");
                        assert!(abs_kind(&*top.borrow()) == kind_of_code(l.num as u8),
                                "stack simulation got different argument bytes than were emitted");
                    }
                }
                kani::cover!($n < 2 || l.num == 1);
                std::mem::forget(g);
            }
        }
    };
}

/// two emissions with equal configuration and entropy on tables that iterate in different (arbitrary) orders
macro_rules! memget_order {
    ($name:ident, $op:ident, $exact:expr, $n:expr, $unw:expr) => {
        memget_stubs! {
            #[kani::unwind($unw)]
            fn $name() {
                let p = any_proto();
                kani::assume(REF_OPS[$exact].proto <= p);
                let data: [u8; 4] = kani::any();
                let mut g = filled(p, $n, 0, 0.0);
                let mut g2 = filled(p, $n, 0, 0.0);
                {
                    let mut u = Unstructured::new(&data);
                    let mut src = GenerationSource::Arbitrary(&mut u);
                    assert!(g.emit_and_process(OpcodeKind::$op, &mut src).is_ok());
                }
                {
                    let mut u = Unstructured::new(&data);
                    let mut src = GenerationSource::Arbitrary(&mut u);
                    assert!(g2.emit_and_process(OpcodeKind::$op, &mut src).is_ok());
                }
                let n1 = g.output.len();
                assert!(g2.output.len() == n1, "output depends on the iteration order of the memo table");
                crate::vk_unroll!(i in [2, 3, 4, 5, 6, 7] {
                    if i < n1 {
                        assert!(g.output[i] == g2.output[i], "output depends on the iteration order of the memo table");
                    }
                });
                kani::cover!(n1 > 2);
                std::mem::forget(g);
                std::mem::forget(g2);
            }
        }
    };
}
memget_order!(memget_order_binget_n2, BinGet, I_BINGET, 2, 8);
memget_order!(memget_order_long_binget_n3, LongBinGet, I_LONG_BINGET, 3, 9);
memget_order!(memget_order_get_n2, Get, I_GET, 2, 10);

include!("gen_memget.rs");
