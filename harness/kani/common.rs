//! Shared helpers for the harness families.
use super::ref_table::*;
use crate::generator::Generator;
use crate::protocol::Version;
use crate::stack::{InstanceObject, StackObject, StackObjectRef};
use std::collections::{HashMap, HashSet};

pub fn version_of(p: u8) -> Version {
    match p {
        0 => Version::V0,
        1 => Version::V1,
        2 => Version::V2,
        3 => Version::V3,
        4 => Version::V4,
        _ => Version::V5,
    }
}

pub fn any_proto() -> u8 {
    let p: u8 = kani::any();
    kani::assume(p <= 5);
    p
}

/// `RandomState::new` issues a getrandom syscall; constant keys instead.
pub fn rs_conc() -> std::hash::RandomState {
    unsafe { std::mem::transmute::<(u64, u64), std::hash::RandomState>((0x0123456789abcdef, 0xfedcba9876543210)) }
}

/// cells are never freed (drop glue of StackObject reaches hashbrown iteration)
pub unsafe fn rc_drop_slow_noop<T: ?Sized, A: std::alloc::Allocator>(_: &mut std::rc::Rc<T, A>) {}

/// reference index of an opcode byte (native replays read real output)
pub fn ref_index_of_code(code: u8) -> Option<usize> {
    let mut i = 0;
    while i < N_OPS {
        if REF_OPS[i].code == code {
            return Some(i);
        }
        i += 1;
    }
    None
}

/// reference kind of a simulated stack object (the abstraction function of relation R)
pub fn abs_kind(o: &StackObject) -> u8 {
    match o {
        StackObject::Int(_) => K_INT,
        StackObject::Float(_) => K_FLOAT,
        StackObject::Bool(_) => K_BOOL,
        StackObject::None => K_NONE,
        StackObject::Bytes(_) => K_BYTES,
        StackObject::String(_) => K_STR,
        StackObject::ByteArray(_) => K_BYTEARRAY,
        StackObject::List(_) => K_LIST,
        StackObject::Tuple(_) => K_TUPLE,
        StackObject::Dict(_) => K_DICT,
        StackObject::Set(_) => K_SET,
        StackObject::FrozenSet(_) => K_FROZENSET,
        StackObject::Mark => K_MARK,
        StackObject::Global { .. } => K_CALLABLE,
        StackObject::Instance(_) => K_INSTANCE,
        StackObject::Callable(_) => K_CALLABLE,
        StackObject::Extension(_) => K_ANY,
        StackObject::Any => K_ANY,
    }
}
