//! Shared helpers for the harness families.
use super::ref_table::*;
use crate::generator::Generator;
use crate::protocol::Version;
use crate::stack::{InstanceObject, StackObject, StackObjectRef};
use std::collections::{HashMap, HashSet};

pub fn version_of(p: u8) -> Version {
    match p {
        0 => Version::V0,
        1 => Version::V1,
        2 => Version::V2,
        3 => Version::V3,
        4 => Version::V4,
        _ => Version::V5,
    }
}

pub fn any_proto() -> u8 {
    let p: u8 = kani::any();
    kani::assume(p <= 5);
    p
}

/// `RandomState::new` issues a getrandom syscall; constant keys instead.
pub fn rs_conc() -> std::hash::RandomState {
    unsafe { std::mem::transmute::<(u64, u64), std::hash::RandomState>((0x0123456789abcdef, 0xfedcba9876543210)) }
}

/// cells are never freed (drop glue of StackObject reaches hashbrown iteration)
pub unsafe fn rc_drop_slow_noop<T: ?Sized, A: std::alloc::Allocator>(_: &mut std::rc::Rc<T, A>) {}

/// reference index of an opcode byte (native replays read real output)
pub fn ref_index_of_code(code: u8) -> Option<usize> {
    let i = CODE2IDX[code as usize];
    if i == 255 {
        None
    } else {
        Some(i as usize)
    }
}

/// reference kind of a simulated stack object (the abstraction function of relation R)
pub fn abs_kind(o: &StackObject) -> u8 {
    match o {
        StackObject::Int(_) => K_INT,
        StackObject::Float(_) => K_FLOAT,
        StackObject::Bool(_) => K_BOOL,
        StackObject::None => K_NONE,
        StackObject::Bytes(_) => K_BYTES,
        StackObject::String(_) => K_STR,
        StackObject::ByteArray(_) => K_BYTEARRAY,
        StackObject::List(_) => K_LIST,
        StackObject::Tuple(_) => K_TUPLE,
        StackObject::Dict(_) => K_DICT,
        StackObject::Set(_) => K_SET,
        StackObject::FrozenSet(_) => K_FROZENSET,
        StackObject::Mark => K_MARK,
        StackObject::Global { .. } => K_CALLABLE,
        StackObject::Instance(_) => K_INSTANCE,
        StackObject::Callable(_) => K_CALLABLE,
        StackObject::Extension(_) => K_ANY,
        StackObject::Any => K_ANY,
    }
}

// ---- abstract pre-states on a real heap (DESIGN.md §3.1) -------------------------------------------------

pub const N_VARIANTS: u8 = 18;

/// one heap cell whose variant is `c` and whose payload is canonical
pub fn mk(c: u8) -> StackObject {
    match c {
        0 => StackObject::Int(0),
        1 => StackObject::Float(0.0),
        2 => StackObject::Bool(false),
        3 => StackObject::None,
        4 => StackObject::Bytes(Vec::new()),
        5 => StackObject::String(String::new()),
        6 => StackObject::ByteArray(Vec::new()),
        7 => StackObject::List(Vec::new()),
        8 => StackObject::Tuple(Vec::new()),
        9 => StackObject::Dict(HashMap::new()),
        10 => StackObject::Set(HashSet::new()),
        11 => StackObject::FrozenSet(HashSet::new()),
        12 => StackObject::Mark,
        13 => StackObject::Global { module: String::new(), name: String::new() },
        14 => StackObject::Instance(InstanceObject {
            callable: StackObjectRef::new(StackObject::None),
            args: StackObjectRef::new(StackObject::None),
        }),
        15 => StackObject::Callable(StackObjectRef::new(StackObject::Global {
            module: String::new(),
            name: String::new(),
        })),
        16 => StackObject::Extension(0),
        _ => StackObject::Any,
    }
}

/// reference kind of variant code `c` (written out independently of `abs_kind`)
pub fn kind_of_code(c: u8) -> u8 {
    const T: [u8; 18] = [
        K_INT, K_FLOAT, K_BOOL, K_NONE, K_BYTES, K_STR, K_BYTEARRAY, K_LIST, K_TUPLE, K_DICT, K_SET, K_FROZENSET,
        K_MARK, K_CALLABLE, K_INSTANCE, K_CALLABLE, K_ANY, K_ANY,
    ];
    T[c as usize]
}

pub fn hm_insert_forget<K: Eq + std::hash::Hash, V, S: std::hash::BuildHasher, A: std::alloc::Allocator>(
    _: &mut HashMap<K, V, S, A>,
    k: K,
    v: V,
) -> Option<V> {
    std::mem::forget(k);
    std::mem::forget(v);
    None
}
pub fn hs_insert_forget<T: Eq + std::hash::Hash, S: std::hash::BuildHasher, A: std::alloc::Allocator>(
    _: &mut HashSet<T, S, A>,
    t: T,
) -> bool {
    std::mem::forget(t);
    true
}
