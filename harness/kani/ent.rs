//! Family ENT (C18, C09): the entropy adapters of `GenerationSource`, both branches.
use super::stubs::*;
use crate::generator::source::{EntropySource, GenerationSource};
use arbitrary::Unstructured;
use rand::RngCore;
use rand_chacha::ChaCha8Rng;

macro_rules! with_arb {
    ($s:ident, $body:block) => {{
        let data: [u8; 16] = kani::any();
        let len: usize = kani::any();
        kani::assume(len <= 16);
        let mut u = Unstructured::new(&data[..len]);
        let mut $s = GenerationSource::Arbitrary(&mut u);
        $body
    }};
}

macro_rules! with_rng {
    ($s:ident, $body:block) => {{
        let mut rng = fresh_rng();
        let mut $s = GenerationSource::Rand(&mut rng);
        $body
    }};
}

#[kani::proof]
#[kani::unwind(18)]
fn ent_arb_choose_index() {
    with_arb!(s, {
        let n: usize = kani::any();
        let r = s.choose_index(n);
        assert!(if n == 0 { r == 0 } else { r < n });
        kani::cover!(n > 256 && r > 255);
    });
}

#[kani::proof]
#[kani::unwind(18)]
fn ent_arb_gen_range() {
    with_arb!(s, {
        let a: usize = kani::any();
        let b: usize = kani::any();
        let r = s.gen_range(a, b);
        assert!(if a >= b { r == a } else { a <= r && r < b });
        kani::cover!(a < b && r > a);
    });
}

#[kani::proof]
#[kani::unwind(18)]
fn ent_arb_ascii_char() {
    with_arb!(s, {
        let c = s.gen_ascii_char() as u32;
        assert!(c >= 0x20 && c <= 0x7e);
        kani::cover!(c == 0x7e);
    });
}

#[kani::proof]
#[kani::unwind(18)]
fn ent_arb_exhausted_fallbacks() {
    // every draw on an empty input returns the documented fixed fallback and does not fail
    let data: [u8; 0] = [];
    let mut u = Unstructured::new(&data);
    let mut s = GenerationSource::Arbitrary(&mut u);
    let n: usize = kani::any();
    let a: usize = kani::any();
    let b: usize = kani::any();
    assert!(s.choose_index(n) == 0);
    assert!(s.gen_range(a, b) == a);
    assert!(!s.gen_bool());
    assert!(s.gen_u8() == 0);
    assert!(s.gen_u16() == 0);
    assert!(s.gen_u32() == 0);
    assert!(s.gen_i32() == 0);
    assert!(s.gen_i64() == 0);
    assert!(s.gen_f64() == 0.0);
    assert!(s.gen_ascii_char() == 'a');
    kani::cover!(true);
}

macro_rules! ent_arb_bytes {
    ($name:ident, $len:expr) => {
        #[kani::proof]
        #[kani::unwind(18)]
        fn $name() {
            with_arb!(s, {
                let v = s.gen_bytes($len);
                assert!(v.len() == $len);
                kani::cover!(true);
                std::mem::forget(v);
            });
        }
    };
}
ent_arb_bytes!(ent_arb_bytes_0, 0);
ent_arb_bytes!(ent_arb_bytes_1, 1);
ent_arb_bytes!(ent_arb_bytes_3, 3);
ent_arb_bytes!(ent_arb_bytes_8, 8);

#[kani::proof]
#[kani::unwind(18)]
fn ent_arb_scalars_total() {
    // scalar draws never fail for any input (result type admits every value, so only totality is asserted)
    with_arb!(s, {
        let _ = s.gen_bool();
        let _ = s.gen_u8();
        let _ = s.gen_u16();
        let _ = s.gen_u32();
        let _ = s.gen_i32();
        let _ = s.gen_i64();
        let _ = s.gen_f64();
        kani::cover!(true);
    });
}

// ---- PRNG branch: the ChaCha core is an arbitrary word stream --------------------------------

#[kani::proof]
#[kani::unwind(4)]
#[kani::stub(<rand_chacha::ChaCha8Rng as rand::RngCore>::next_u32, rng_any_u32)]
#[kani::stub(<rand_chacha::ChaCha8Rng as rand::RngCore>::next_u64, rng_any_u64)]
#[kani::stub(<rand_chacha::ChaCha8Rng as rand::RngCore>::fill_bytes, rng_any_fill)]
fn ent_rng_choose_index() {
    with_rng!(s, {
        let n: usize = kani::any();
        kani::assume(n <= 1024);
        let r = s.choose_index(n);
        assert!(if n == 0 { r == 0 } else { r < n });
        kani::cover!(n > 256 && r > 255);
    });
}

#[kani::proof]
#[kani::unwind(4)]
#[kani::stub(<rand_chacha::ChaCha8Rng as rand::RngCore>::next_u32, rng_any_u32)]
#[kani::stub(<rand_chacha::ChaCha8Rng as rand::RngCore>::next_u64, rng_any_u64)]
#[kani::stub(<rand_chacha::ChaCha8Rng as rand::RngCore>::fill_bytes, rng_any_fill)]
fn ent_rng_gen_range() {
    with_rng!(s, {
        let a: usize = kani::any();
        let b: usize = kani::any();
        kani::assume(a >= b || b - a <= 1024);
        let r = s.gen_range(a, b);
        assert!(if a >= b { r == a } else { a <= r && r < b });
        kani::cover!(a < b && r > a);
    });
}

#[kani::proof]
#[kani::unwind(4)]
#[kani::stub(<rand_chacha::ChaCha8Rng as rand::RngCore>::next_u32, rng_any_u32)]
#[kani::stub(<rand_chacha::ChaCha8Rng as rand::RngCore>::next_u64, rng_any_u64)]
#[kani::stub(<rand_chacha::ChaCha8Rng as rand::RngCore>::fill_bytes, rng_any_fill)]
fn ent_rng_ascii_char_and_f64() {
    with_rng!(s, {
        let c = s.gen_ascii_char() as u32;
        assert!(c >= 0x20 && c <= 0x7e);
        let f = s.gen_f64();
        assert!(f >= 0.0 && f < 1.0);
        kani::cover!(f == 0.0);
        kani::cover!(c == 0x7e);
    });
}

macro_rules! ent_rng_bytes {
    ($name:ident, $len:expr) => {
        #[kani::proof]
        #[kani::unwind(10)]
        #[kani::stub(<rand_chacha::ChaCha8Rng as rand::RngCore>::next_u32, rng_any_u32)]
        #[kani::stub(<rand_chacha::ChaCha8Rng as rand::RngCore>::next_u64, rng_any_u64)]
        #[kani::stub(<rand_chacha::ChaCha8Rng as rand::RngCore>::fill_bytes, rng_any_fill)]
        fn $name() {
            with_rng!(s, {
                let v = s.gen_bytes($len);
                assert!(v.len() == $len);
                kani::cover!(true);
                std::mem::forget(v);
            });
        }
    };
}
ent_rng_bytes!(ent_rng_bytes_0, 0);
ent_rng_bytes!(ent_rng_bytes_3, 3);
ent_rng_bytes!(ent_rng_bytes_8, 8);
