//! Family TAIL (C01, C05, C09, C10, C11): the real `cleanup_for_stop` against shadow-state contracts of its
//! callees (DESIGN.md §3.3 layer L3a).  Under `cargo kani` the callees `has_mark`, `Stack::len`, `peek`,
//! `pop`, `emit_opcode` are contracts over an abstract stack (depth + MARK positions), each emitted opcode
//! is checked against the reference machine as it is emitted.  Under native playback (`cfg(test)`) there are
//! no stubs: the same initial stack is built for real, the real callees run, and the emitted bytes are
//! checked against the same reference machine afterwards.
use super::common::*;
use super::ref_dis::*;
use super::ref_table::*;
use crate::generator::Generator;
use crate::opcodes::OpcodeKind;
use crate::stack::{Stack, StackObject, StackObjectRef};

/// shadow state shared with the contracts (one tagged struct, see stubs.rs on why)
struct TailSt {
    tag: u64,
    sh: RefState,
    p: u8,
    n0: usize,
    emitted: usize,
}
static mut T: TailSt = TailSt { tag: 0x5441_494c_5f53_5421, sh: RefState::empty(), p: 0, n0: 0, emitted: 0 };

fn check_emit(i: usize) {
    unsafe {
        assert!(pre(i, &T.sh, 0), "collapse opcode violates the reference stack discipline");
        assert!(REF_OPS[i].proto <= T.p, "collapse opcode not in the protocol's vocabulary");
        assert!(REF_OPS[i].arg == A_NONE, "collapse opcode emitted without its argument");
        assert!(
            i != I_EXT1 && i != I_EXT2 && i != I_EXT4 && i != I_NEXT_BUFFER && i != I_READONLY_BUFFER && i != I_FRAME
                && i != I_STOP && i != I_PROTO,
            "opt-in / framing opcode emitted by the collapse"
        );
        T.emitted += 1;
        assert!(T.emitted <= 2 * T.n0 + 1, "collapse tail longer than 2d+1 opcodes");
        T.sh = step(i, &T.sh, 0);
    }
}

fn leak_cell(k: u8) -> &'static StackObjectRef {
    let o = if k == K_MARK { StackObject::Mark } else { StackObject::None };
    Box::leak(Box::new(StackObjectRef::new(o)))
}

pub fn c_has_mark(_g: &Generator) -> bool {
    unsafe { T.sh.top_mark().is_some() }
}
pub fn c_len(_s: &Stack) -> usize {
    unsafe { T.sh.n }
}
pub fn c_peek(_g: &Generator) -> Option<&StackObjectRef> {
    unsafe {
        match T.sh.top() {
            None => None,
            Some(k) => Some(leak_cell(k)),
        }
    }
}
pub fn c_pop(_g: &mut Generator) -> Option<StackObjectRef> {
    unsafe {
        match T.sh.top() {
            None => None,
            Some(k) => {
                T.sh.n -= 1;
                Some(StackObjectRef::new(if k == K_MARK { StackObject::Mark } else { StackObject::None }))
            }
        }
    }
}
pub fn c_emit_opcode(_g: &mut Generator, op: OpcodeKind) {
    check_emit(ref_index(op));
}
// every other stack-reading helper of Generator gets a contract over the same shadow, so that a collapse
// routine that starts using one of them is not silently run against the (empty) real stack
pub fn c_count_items_to_mark(_g: &Generator) -> Option<usize> {
    unsafe { T.sh.top_mark().map(|p| T.sh.n - 1 - p) }
}
pub fn c_peek_at(_g: &Generator, depth: usize) -> Option<&StackObjectRef> {
    unsafe {
        match T.sh.at(depth) {
            None => None,
            Some(k) => Some(leak_cell(k)),
        }
    }
}
pub fn c_false_at(_g: &Generator, _depth: usize) -> bool {
    false // the shadow stack holds only NONE objects and MARKs
}
pub fn c_false(_g: &Generator) -> bool {
    false
}

fn tail_body(maxn: usize) {
    let p = any_proto();
    let n: usize = kani::any();
    kani::assume(n <= maxn);
    let marks: u16 = kani::any();
    let mut s = RefState::empty();
    let mut i = 0;
    while i < n {
        s.push(if (marks >> i) & 1 == 1 { K_MARK } else { K_NONE });
        i += 1;
    }
    unsafe {
        T.sh = s;
        T.p = p;
        T.n0 = n;
        T.emitted = 0;
    }
    let mut g = Generator::new(version_of(p));
    #[cfg(test)]
    {
        // native replay: the same stack for real
        let mut i = 0;
        while i < n {
            g.emit_opcode(if (marks >> i) & 1 == 1 { OpcodeKind::Mark } else { OpcodeKind::None });
            i += 1;
        }
        g.output.clear();
    }
    g.cleanup_for_stop();
    #[cfg(test)]
    {
        let out = g.output.clone();
        for b in out {
            let i = ref_index_of_code(b).expect("unknown opcode byte in the collapse tail");
            check_emit(i);
        }
    }
    unsafe {
        assert!(T.sh.n == 1, "STOP must find exactly one object");
        assert!(T.sh.k[0] != K_MARK, "STOP must not find a MARK");
        kani::cover!(n >= 3 && T.emitted >= 2);
    }
    std::mem::forget(g);
}

macro_rules! tail_h {
    ($name:ident, $maxn:expr, $unw:expr) => {
        #[kani::proof]
        #[kani::unwind($unw)]
        #[kani::stub(std::hash::RandomState::new, rs_conc)]
        #[kani::stub(std::rc::Rc::drop_slow, rc_drop_slow_noop)]
        #[kani::stub(Generator::has_mark, c_has_mark)]
        #[kani::stub(Generator::peek, c_peek)]
        #[kani::stub(Generator::pop, c_pop)]
        #[kani::stub(Generator::emit_opcode, c_emit_opcode)]
        #[kani::stub(crate::stack::Stack::len, c_len)]
        #[kani::stub(Generator::count_items_to_mark, c_count_items_to_mark)]
        #[kani::stub(Generator::peek_at, c_peek_at)]
        #[kani::stub(Generator::is_list_at, c_false_at)]
        #[kani::stub(Generator::is_dict_at, c_false_at)]
        #[kani::stub(Generator::is_tuple_at, c_false_at)]
        #[kani::stub(Generator::is_callable_at, c_false_at)]
        #[kani::stub(Generator::is_instance_at, c_false_at)]
        #[kani::stub(Generator::is_string_at, c_false_at)]
        #[kani::stub(Generator::is_list_at_mark, c_false)]
        #[kani::stub(Generator::is_dict_at_mark, c_false)]
        #[kani::stub(Generator::is_set_at_mark, c_false)]
        #[kani::stub(Generator::is_callable_above_mark, c_false)]
        fn $name() {
            tail_body($maxn);
        }
    };
}
tail_h!(tail_collapse_n5, 5, 8);
tail_h!(tail_collapse_n8, 8, 11);
