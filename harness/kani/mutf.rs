//! Family MUT(first-wins) (C15, C16, C09): the dispatch loops of `generator/mutation.rs` with two registered
//! mutators: at rate 1.0 the value is mutated by the FIRST mutator that is applicable to it (a mutator without a
//! method for the value kind, or one that declines the value, is skipped); at rate 0.0 the value is unchanged.
use super::common::*;
use crate::generator::source::GenerationSource;
use crate::generator::Generator;
use crate::mutators::*;
use arbitrary::Unstructured;

macro_rules! fw {
    ($name:ident, $unw:expr, $rate:expr, [$($m:expr),*], $body:expr) => {
        #[kani::proof]
        #[kani::unwind($unw)]
        #[kani::stub(std::hash::RandomState::new, rs_conc)]
        #[kani::stub(std::rc::Rc::drop_slow, rc_drop_slow_noop)]
        fn $name() {
            let mut g = Generator::new(version_of(2));
            g.mutation_rate = $rate;
            $( g.mutators.push(Box::new($m)); )*
            let data: [u8; 24] = kani::any();
            let len: usize = kani::any();
            kani::assume(len <= 24);
            let mut u = Unstructured::new(&data[..len]);
            let mut s = GenerationSource::Arbitrary(&mut u);
            let f: fn(&Generator, &mut GenerationSource) = $body;
            f(&g, &mut s);
            kani::cover!(true);
            std::mem::forget(g);
        }
    };
}

fn off1(v: i32, r: i32) -> bool {
    r == v.wrapping_add(1) || r == v.wrapping_sub(1)
}
fn bnd(r: i32) -> bool {
    r == 0 || r == -1 || r == 1 || r == i32::MAX || r == i32::MIN
}

fw!(firstwins_int_offbyone_then_boundary_r1, 20, 1.0, [OffByOneMutator, BoundaryMutator], |g, s| {
    let v: i32 = kani::any();
    let r = g.mutate_int(v, s);
    assert!(off1(v, r), "rate 1.0: the first applicable mutator (off-by-one) must mutate the integer");
});
fw!(firstwins_int_boundary_then_offbyone_r1, 20, 1.0, [BoundaryMutator, OffByOneMutator], |g, s| {
    let v: i32 = kani::any();
    let r = g.mutate_int(v, s);
    assert!(bnd(r), "rate 1.0: the first applicable mutator (boundary) must mutate the integer");
});
fw!(firstwins_int_skips_inapplicable_r1, 20, 1.0, [StringLengthMutator, CharacterMutator, OffByOneMutator], |g, s| {
    let v: i32 = kani::any();
    let r = g.mutate_int(v, s);
    assert!(off1(v, r), "rate 1.0: mutators without an integer method are skipped, the next applicable one fires");
});
fw!(firstwins_int_three_r0, 20, 0.0, [OffByOneMutator, BoundaryMutator, BitFlipMutator], |g, s| {
    let v: i32 = kani::any();
    let r = g.mutate_int(v, s);
    assert!(r == v, "rate 0.0: no registered mutator may change the integer");
});
fw!(firstwins_float_r1, 20, 1.0, [OffByOneMutator, BoundaryMutator], |g, s| {
    let v: f64 = kani::any();
    let r = g.mutate_float(v, s);
    assert!(r == 0.0 || r == -1.0 || r == 1.0 || r == f64::MAX || r == f64::MIN || r.is_infinite() || r.is_nan(),
            "rate 1.0: the first mutator with a float method (boundary) must mutate the float");
});
fw!(firstwins_float_r0, 20, 0.0, [BoundaryMutator, BitFlipMutator], |g, s| {
    let v: f64 = kani::any();
    let r = g.mutate_float(v, s);
    assert!(r.to_bits() == v.to_bits(), "rate 0.0: no registered mutator may change the float");
});
fw!(firstwins_memo_offbyone_then_unsafe_r1, 20, 1.0, [OffByOneMutator, MemoIndexMutator::new(true)], |g, s| {
    let v: usize = kani::any();
    let r = g.mutate_memo_index(v, s);
    assert!(r == v.saturating_add(1) || r == v.saturating_sub(1), "rate 1.0: the first applicable mutator (off-by-one) must mutate the memo index");
});
fw!(firstwins_memo_unsafe_first_r1, 20, 1.0, [MemoIndexMutator::new(true), OffByOneMutator], |g, s| {
    // a mutator created in unsafe mode is registered on a generator whose own flag is off: it is still the first
    // applicable mutator for a memo index (the generator's flag only decides whether the result is validated)
    let v: usize = kani::any();
    kani::assume(v >= 2000);
    let r = g.mutate_memo_index(v, s);
    assert!(r < 1000, "rate 1.0: the first applicable mutator (memo-index, unsafe variant) must mutate the memo index");
});
fw!(firstwins_memo_r0, 20, 0.0, [MemoIndexMutator::new(true), OffByOneMutator], |g, s| {
    let v: usize = kani::any();
    let r = g.mutate_memo_index(v, s);
    assert!(r == v, "rate 0.0: no registered mutator may change the memo index");
});
fw!(firstwins_bytes_character_declines_empty_r1, 14, 1.0, [CharacterMutator, StringLengthMutator], |g, s| {
    // the character mutator is not applicable to an empty value: the string-length mutator must fire
    let r = g.mutate_bytes(Vec::new(), s);
    assert!(r.len() <= 9, "rate 1.0 on the empty byte string: empty (prefix/doubled) or 1..9 extra items");
    std::mem::forget(r);
});
fw!(firstwins_bytes_character_first_r1, 14, 1.0, [CharacterMutator, StringLengthMutator], |g, s| {
    let v: [u8; 2] = kani::any();
    let r = g.mutate_bytes(v.to_vec(), s);
    assert!(r.len() == 2, "rate 1.0: the first applicable mutator (character) keeps the length");
    let changed = (r[0] != v[0]) as u8 + (r[1] != v[1]) as u8;
    assert!(changed <= 1, "rate 1.0: the first applicable mutator (character) changes at most one position");
    std::mem::forget(r);
});
fw!(firstwins_bytes_r0, 14, 0.0, [StringLengthMutator, CharacterMutator], |g, s| {
    let v: [u8; 2] = kani::any();
    let r = g.mutate_bytes(v.to_vec(), s);
    assert!(r.len() == 2 && r[0] == v[0] && r[1] == v[1], "rate 0.0: no registered mutator may change the byte string");
    std::mem::forget(r);
});
