//! Families MUT(contract) (C16, C09) and POST (C16, C06, C10, C04): whenever a mutator fires, the result is within
//! its documented contract, for every value, every entropy state of both sources and every rate in [0,1].
use super::common::*;
use super::ref_lex::*;
use super::ref_table::*;
use super::stubs::*;
use crate::generator::source::{EntropySource, GenerationSource};
use crate::mutators::*;
use arbitrary::Unstructured;

fn any_rate() -> f64 {
    let r: f64 = kani::any();
    kani::assume(r >= 0.0 && r <= 1.0);
    r
}

macro_rules! arb_src {
    ($s:ident, $n:expr, $body:block) => {{
        let data: [u8; $n] = kani::any();
        let len: usize = kani::any();
        kani::assume(len <= $n);
        let mut u = Unstructured::new(&data[..len]);
        let mut $s = GenerationSource::Arbitrary(&mut u);
        $body
    }};
}
macro_rules! rng_src {
    ($s:ident, $body:block) => {{
        let mut rng = fresh_rng();
        let mut $s = GenerationSource::Rand(&mut rng);
        $body
    }};
}

/// contract harness pair for a scalar method: $check(v, r) must hold whenever Some(r) comes back
macro_rules! contract_scalar {
    ($arb:ident, $rng:ident, $mk:expr, $meth:ident, $ty:ty, $check:expr) => {
        #[kani::proof]
        #[kani::unwind(20)]
        fn $arb() {
            arb_src!(s, 24, {
                let v: $ty = kani::any();
                let rate = any_rate();
                if let Some(r) = $mk.$meth(v, &mut s, rate) {
                    assert!($check(v, r), "mutator result outside its documented contract");
                    kani::cover!(true);
                }
            });
        }
        #[kani::proof]
        #[kani::unwind(4)]
        #[kani::stub(<rand_chacha::ChaCha8Rng as rand::RngCore>::next_u32, rng_any_u32)]
        #[kani::stub(<rand_chacha::ChaCha8Rng as rand::RngCore>::next_u64, rng_any_u64)]
        fn $rng() {
            rng_src!(s, {
                let v: $ty = kani::any();
                let rate = any_rate();
                if let Some(r) = $mk.$meth(v, &mut s, rate) {
                    assert!($check(v, r), "mutator result outside its documented contract");
                    kani::cover!(true);
                }
            });
        }
    };
}

fn one_bit32(v: i32, r: i32) -> bool {
    ((v ^ r) as u32).count_ones() == 1
}
fn one_bit64(v: i64, r: i64) -> bool {
    ((v ^ r) as u64).count_ones() == 1
}
fn boundary32(_v: i32, r: i32) -> bool {
    r == 0 || r == -1 || r == 1 || r == i32::MAX || r == i32::MIN
}
fn boundary64(_v: i64, r: i64) -> bool {
    r == 0 || r == -1 || r == 1 || r == i64::MAX || r == i64::MIN
}
fn boundaryf(_v: f64, r: f64) -> bool {
    r == 0.0 || r == -1.0 || r == 1.0 || r == f64::MAX || r == f64::MIN || r == f64::INFINITY || r == f64::NEG_INFINITY || r.is_nan()
}
fn off1_32(v: i32, r: i32) -> bool {
    r == v.wrapping_add(1) || r == v.wrapping_sub(1)
}
fn off1_64(v: i64, r: i64) -> bool {
    r == v.wrapping_add(1) || r == v.wrapping_sub(1)
}
fn off1_memo(v: usize, r: usize) -> bool {
    r == v.saturating_add(1) || r == v.saturating_sub(1)
}
fn memo_safe(v: usize, r: usize) -> bool {
    r == v || r == v.saturating_add(1) || r == v.saturating_sub(1)
}
fn memo_unsafe(_v: usize, r: usize) -> bool {
    r < 1000
}

contract_scalar!(mutc_bitflip_int_arb, mutc_bitflip_int_rng, BitFlipMutator, mutate_int, i32, one_bit32);
contract_scalar!(mutc_bitflip_long_arb, mutc_bitflip_long_rng, BitFlipMutator, mutate_long, i64, one_bit64);
contract_scalar!(mutc_boundary_int_arb, mutc_boundary_int_rng, BoundaryMutator, mutate_int, i32, boundary32);
contract_scalar!(mutc_boundary_long_arb, mutc_boundary_long_rng, BoundaryMutator, mutate_long, i64, boundary64);
contract_scalar!(mutc_boundary_float_arb, mutc_boundary_float_rng, BoundaryMutator, mutate_float, f64, boundaryf);
contract_scalar!(mutc_offbyone_int_arb, mutc_offbyone_int_rng, OffByOneMutator, mutate_int, i32, off1_32);
contract_scalar!(mutc_offbyone_long_arb, mutc_offbyone_long_rng, OffByOneMutator, mutate_long, i64, off1_64);
contract_scalar!(mutc_offbyone_memo_arb, mutc_offbyone_memo_rng, OffByOneMutator, mutate_memo_index, usize, off1_memo);
contract_scalar!(mutc_memoidx_safe_arb, mutc_memoidx_safe_rng, MemoIndexMutator::new(false), mutate_memo_index, usize, memo_safe);
contract_scalar!(mutc_memoidx_unsafe_arb, mutc_memoidx_unsafe_rng, MemoIndexMutator::new(true), mutate_memo_index, usize, memo_unsafe);

// ---- byte strings: concrete length L, symbolic content -----------------------------------------------------
// StringLength: prefix of the input | input + 1..9 extra items | input doubled.  Character: same length, at most
// one position changed; not applicable (None) to the empty input.
macro_rules! contract_bytes {
    ($sl:ident, $ch:ident, $l:expr) => {
        #[kani::proof]
        #[kani::unwind(12)]
        fn $sl() {
            arb_src!(s, 20, {
                let v: [u8; $l] = kani::any();
                let rate = any_rate();
                if let Some(r) = StringLengthMutator.mutate_bytes(v.to_vec(), &mut s, rate) {
                    let n = r.len();
                    assert!(n <= 2 * $l || n <= $l + 9, "string-length result too long");
                    let mut pref = true; // r agrees with v on the common prefix
                    let mut dbl = n == 2 * $l;
                    crate::vk_unroll!(i in [0, 1, 2, 3, 4, 5, 6, 7] {
                        if i < n && i < $l && r[i] != v[i] { pref = false; }
                        if i < n && i >= $l && i < 2 * $l && r[i] != v[i - $l] { dbl = false; }
                    });
                    assert!(pref, "string-length result does not start with (a prefix of) the input");
                    let truncated = n < $l || ($l == 0 && n == 0);
                    let extended = n >= $l + 1 && n <= $l + 9;
                    assert!(truncated || extended || (dbl && n == 2 * $l), "string-length result is neither prefix, +1..9 items, nor doubled");
                    kani::cover!(extended);
                    std::mem::forget(r);
                }
            });
        }
        #[kani::proof]
        #[kani::unwind(12)]
        fn $ch() {
            arb_src!(s, 20, {
                let v: [u8; $l] = kani::any();
                let rate = any_rate();
                let out = CharacterMutator.mutate_bytes(v.to_vec(), &mut s, rate);
                kani::cover!($l == 0 || out.is_some());
                if $l == 0 {
                    assert!(out.is_none(), "character mutator is not applicable to the empty input");
                }
                if let Some(r) = out {
                    assert!(r.len() == $l, "character mutator must keep the length");
                    let mut changed = 0;
                    crate::vk_unroll!(i in [0, 1, 2, 3] {
                        if i < $l && r[i] != v[i] { changed += 1; }
                    });
                    assert!(changed <= 1, "character mutator changed more than one position");
                    std::mem::forget(r);
                }
            });
        }
    };
}
contract_bytes!(mutc_stringlen_bytes_l0, mutc_character_bytes_l0, 0);
contract_bytes!(mutc_stringlen_bytes_l1, mutc_character_bytes_l1, 1);
contract_bytes!(mutc_stringlen_bytes_l2, mutc_character_bytes_l2, 2);
contract_bytes!(mutc_stringlen_bytes_l3, mutc_character_bytes_l3, 3);

// ---- String-typed methods: the empty string only (DESIGN.md §4 MUT: symbolic characters are outside reach) ------
#[kani::proof]
#[kani::unwind(12)]
fn mutc_character_string_empty_arb() {
    arb_src!(s, 12, {
        let rate = any_rate();
        let c = CharacterMutator.mutate_string(String::new(), &mut s, rate);
        assert!(c.is_none(), "character mutator is not applicable to the empty string");
        kani::cover!(true);
    });
}
#[kani::proof]
#[kani::unwind(12)]
fn mutc_stringlen_string_empty_arb() {
    arb_src!(s, 12, {
        let rate = any_rate();
        if let Some(r) = StringLengthMutator.mutate_string(String::new(), &mut s, rate) {
            let n = r.len();
            assert!(n <= 9, "string-length on the empty string: empty, or 1..9 extra characters");
            let b = r.as_bytes();
            crate::vk_unroll!(i in [0, 1, 2, 3, 4, 5, 6, 7, 8] {
                if i < n { assert!(b[i] >= b'a' && b[i] <= b'z', "extension characters are lowercase ASCII letters"); }
            });
            kani::cover!(n > 0);
            std::mem::forget(r);
        }
    });
}

// ---- POST: TypeConfusion.post_process ---------------------------------------------------------------------------
fn value_class(i: usize) -> u8 {
    // coarse data kind pushed by an opcode, from the reference table; 0 = not a value-pushing opcode
    let container_update = i == I_APPEND || i == I_APPENDS || i == I_SETITEM || i == I_SETITEMS || i == I_ADDITEMS;
    if REF_OPS[i].npush != 1 || container_update {
        return 0;
    }
    let k = REF_OPS[i].push_kind;
    if k == K_INT || k == K_INT_OR_BOOL { 1 }
    else if k == K_FLOAT { 2 }
    else if k == K_STR || i == I_STRING { 3 }
    else if k == K_BYTES || i == I_BINSTRING || i == I_SHORT_BINSTRING { 4 }
    else if k == K_LIST { 5 }
    else if k == K_TUPLE { 6 }
    else if k == K_DICT { 7 }
    else if k == K_NONE { 8 }
    else if k == K_BOOL { 9 }
    else if k == K_SET || k == K_FROZENSET || k == K_BYTEARRAY { 10 }
    else { 0 }
}

macro_rules! post_h {
    ($name:ident, $unsafe_mode:expr, $dl:expr) => {
        #[kani::proof]
        #[kani::unwind(14)]
        fn $name() {
            arb_src!(s, 24, {
                let rate = any_rate();
                let delta: [u8; $dl] = kani::any();
                let snap = EmissionSnapshot {
                    stack_depth: kani::any(),
                    output_len: 2,
                    memo_size: kani::any(),
                    stack_delta: Vec::new(),
                    output_delta: delta.to_vec(),
                    memo_delta: Vec::new(),
                };
                let mut out: Vec<u8> = Vec::new();
                out.push(0xAA);
                out.push(0x55);
                crate::vk_unroll!(i in [0, 1, 2, 3] { if i < $dl { out.push(delta[i]); } });
                let out_first: u8 = if out.len() > 2 { out[2] } else { 0 };
                let fired = TypeConfusionMutator::new($unsafe_mode).post_process(&snap, &mut out, &mut s, rate);
                let n = out.len();
                assert!(n >= 2 && n <= 20);
                let mut buf = [0u8; 20];
                crate::vk_unroll!(i in [0,1,2,3,4,5,6,7,8,9,10,11,12,13,14,15,16,17,18,19] { if i < n { buf[i] = out[i]; } });
                assert!(buf[0] == 0xAA && buf[1] == 0x55, "post-processing rewrote bytes emitted earlier");
                if !fired || !$unsafe_mode {
                    assert!(!fired || $unsafe_mode, "type confusion must do nothing in safe mode");
                    assert!(n == 2 + $dl, "output changed although no rewrite was reported");
                    crate::vk_unroll!(i in [0, 1, 2, 3] { if i < $dl { assert!(buf[2 + i] == delta[i], "output changed although no rewrite was reported"); } });
                } else {
                    assert!($dl > 0, "nothing was emitted, nothing to replace");
                    let first: u8 = if $dl > 0 { out_first } else { 0 };
                    let orig = ref_index_of_code(first);
                    assert!(orig.is_some() && value_class(orig.unwrap()) != 0, "type confusion replaced an opcode that does not push a value");
                    let l = lex_one_bounded(&buf[..n], 2, 4);
                    assert!(l.is_some(), "replacement is not one complete well-formed opcode");
                    let l = l.unwrap();
                    assert!(l.end == n, "replacement is more than one opcode");
                    let nc = value_class(l.op);
                    assert!(nc != 0, "replacement is not a value-pushing opcode");
                    assert!(nc != value_class(orig.unwrap()), "replacement pushes the same kind as the original");
                }
                kani::cover!($dl == 0 || !$unsafe_mode || fired);
                std::mem::forget(out);
                std::mem::forget(snap);
            });
        }
    };
}
post_h!(post_tc_unsafe_d1, true, 1);
post_h!(post_tc_unsafe_d3, true, 3);
post_h!(post_tc_unsafe_d0, true, 0);
post_h!(post_tc_safe_d1, false, 1);
