//! Native differential test of the oracle itself (not a Kani harness): the reference lexer and the reference
//! machine must agree with CPython's pickletools.genops / pickletools.dis on the streams produced by
//! /verif/oracle/validate_ref.py (random and pickletools-guided opcode streams with boundary arguments).
#![cfg(test)]
use super::ref_dis::*;
use super::ref_lex::*;
use super::ref_table::*;
use std::collections::BTreeMap;

fn unhex(s: &str) -> Vec<u8> {
    let s = s.strip_prefix('x').unwrap();
    (0..s.len() / 2).map(|i| u8::from_str_radix(&s[2 * i..2 * i + 2], 16).unwrap()).collect()
}

/// the reference machine on a whole stream, with a general memo (index -> kind) instead of the contiguous one:
/// the per-step functions `pre`/`step` are used with the memo argument translated to "fresh" / "existing".
fn dis_accepts(buf: &[u8]) -> Option<bool> {
    let mut s = RefState::empty();
    let mut memo: BTreeMap<u64, u8> = BTreeMap::new();
    let mut markstack = 0usize;
    let mut pos = 0;
    let mut stopped = false;
    while pos < buf.len() {
        let l = lex_one(buf, pos)?;
        pos = l.end;
        let i = l.op;
        if s.n + 2 > MAXD {
            return None; // deeper than the fixed arrays: case not comparable
        }
        // translate the memo argument into the contiguous abstraction used by pre/step
        let is_put = i == I_PUT || i == I_BINPUT || i == I_LONG_BINPUT || i == I_MEMOIZE;
        let is_get = i == I_GET || i == I_BINGET || i == I_LONG_BINGET;
        let mut t = s;
        t.m = 1;
        t.mk[0] = K_ANY;
        let arg = if is_put {
            let idx = if i == I_MEMOIZE { memo.len() as u64 } else { l.num };
            if i == I_MEMOIZE && memo.contains_key(&idx) {
                // only possible with a non-contiguous memo (a PUT with a gap before): "memo key already defined";
                // the contiguous abstraction of `pre` cannot express it, so the rule is applied here
                return Some(false);
            }
            if memo.contains_key(&idx) { 0 } else { 1 }
        } else if is_get {
            match memo.get(&l.num) {
                Some(k) => {
                    t.mk[0] = *k;
                    0
                }
                None => 1,
            }
        } else {
            0
        };
        // pickletools keeps a separate markstack: a MARK popped as an ordinary operand leaves it stale
        let uses_mark = REF_OPS[i].mark || (i == I_POP && t.top() == Some(K_MARK));
        if uses_mark && markstack > 0 && t.top_mark().is_none() {
            return Some(false); // IndexError in pickletools: markstack says there is a mark, the stack has none
        }
        if uses_mark && markstack == 0 {
            return Some(false);
        }
        if !pre(i, &t, arg) {
            return Some(false);
        }
        if uses_mark {
            markstack -= 1;
        }
        let top_before = t.top();
        let mut u = step(i, &t, arg);
        if is_put {
            let idx = if i == I_MEMOIZE { memo.len() as u64 } else { l.num };
            memo.insert(idx, top_before.unwrap_or(K_ANY));
        }
        if i == I_MARK {
            markstack += 1;
        }
        u.m = 0;
        s = u;
        if i == I_STOP {
            stopped = true;
            break;
        }
    }
    if !stopped {
        return Some(false);
    }
    Some(s.n == 0)
}

#[test]
fn oracle_cases() {
    let path = std::env::var("VERIF_ORACLE_CASES").expect("VERIF_ORACLE_CASES");
    let txt = std::fs::read_to_string(path).unwrap();
    let (mut n, mut skipped, mut lex_bad, mut dis_bad) = (0, 0, 0, 0);
    for line in txt.lines() {
        let p: Vec<&str> = line.split_whitespace().collect();
        if p.len() != 3 {
            continue;
        }
        let buf = unhex(p[0]);
        let want_lex = p[1] == "1";
        let want_dis = p[2] == "1";
        n += 1;
        let got_lex = {
            let mut pos = 0;
            let mut ok = true;
            while pos < buf.len() {
                match lex_one(&buf, pos) {
                    Some(l) => {
                        pos = l.end;
                        if l.op == I_STOP {
                            break;
                        }
                    }
                    None => {
                        ok = false;
                        break;
                    }
                }
            }
            ok
        };
        // the reference lexer is allowed to be STRICTER than genops only where C04 adds domain rules
        // (EXT code >= 1, non-negative memo index, PROTO <= 5, unescaped quote inside STRING): never more lenient
        if want_lex != got_lex && !(want_lex && !got_lex && stricter_by_design(&buf)) {
            lex_bad += 1;
            eprintln!("LEX mismatch: cpython={} ref={} stream={}", want_lex, got_lex, p[0]);
        }
        if want_lex && got_lex {
            match dis_accepts(&buf) {
                None => skipped += 1,
                Some(got) => {
                    if got != want_dis {
                        dis_bad += 1;
                        eprintln!("DIS mismatch: cpython={} ref={} stream={}", want_dis, got, p[0]);
                    }
                }
            }
        }
    }
    println!("oracle_cases: {} cases, {} skipped (too deep), {} lexer mismatches, {} machine mismatches", n, skipped, lex_bad, dis_bad);
    assert!(n > 100 && lex_bad == 0 && dis_bad == 0);
}

/// streams on which the reference lexer rejects by a C04 domain rule that genops does not enforce
fn stricter_by_design(buf: &[u8]) -> bool {
    let mut pos = 0;
    while pos < buf.len() {
        match lex_one(buf, pos) {
            Some(l) => pos = l.end,
            None => {
                let c = buf[pos];
                // EXT1/2/4, GET/PUT (negative), PROTO (> 5), STRING (inner quote)
                return c == 0x82 || c == 0x83 || c == 0x84 || c == 0x67 || c == 0x70 || c == 0x80 || c == 0x53;
            }
        }
    }
    false
}
