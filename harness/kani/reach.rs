//! Family REACH (C12, C09): for every opcode with a non-trivial guard, a shortest enabling recipe is executed on the
//! real generator from the empty stack: before every step the real `can_emit(step)` must hold, then the real
//! `process_stack_ops(step)` runs; finally `can_emit(target)` must hold.  This complements the GUARD covers (which
//! only show that *some abstract state* enables the opcode): a guard that demands a state no opcode sequence
//! produces makes the recipe fail.  Callables come from EXT1 (with the opt-in flag on) because it is the cheapest
//! producer; that GLOBAL/STACK_GLOBAL produce the same kind is shown by STEP.
use super::common::*;
use super::step::*;
use crate::generator::Generator;
use crate::opcodes::OpcodeKind;

fn run_step(g: &mut Generator, op: OpcodeKind, arg: Option<&[u8]>) {
    assert!(g.can_emit(op), "a recipe step is not enabled: the recipe's target opcode is unreachable this way");
    g.process_stack_ops(op, arg);
}

macro_rules! reach_h {
    ($name:ident, $p:expr, $unw:expr, [$(($op:ident, $arg:expr)),*], $target:ident) => {
        #[kani::proof]
        #[kani::unwind($unw)]
        #[kani::stub(std::hash::RandomState::new, rs_conc)]
        #[kani::stub(std::rc::Rc::drop_slow, rc_drop_slow_noop)]
        #[kani::stub(std::collections::HashMap::insert, hm_insert_forget)]
        #[kani::stub(std::collections::HashSet::insert, hs_insert_forget)]
        #[kani::stub(<crate::stack::StackObject as std::clone::Clone>::clone, so_clone_flat)]
        fn $name() {
            let mut g = Generator::new(version_of($p));
            g.allow_ext_opcodes = true;
            g.allow_buffer_opcodes = true;
            $( { let a: Option<&[u8]> = $arg; run_step(&mut g, OpcodeKind::$op, a); } )*
            assert!(g.can_emit(OpcodeKind::$target), "opcode is not enabled after its shortest enabling recipe (dead guard?)");
            kani::cover!(true);
            std::mem::forget(g);
        }
    };
}

const N: Option<&[u8]> = None;
const E1: Option<&[u8]> = Some(&[1]);
const EMPTY: Option<&[u8]> = Some(&[]);

reach_h!(reach_pop, 0, 6, [(None, N)], Pop);
reach_h!(reach_dup, 0, 6, [(None, N)], Dup);
reach_h!(reach_append, 1, 6, [(EmptyList, N), (None, N)], Append);
reach_h!(reach_appends, 1, 8, [(EmptyList, N), (Mark, N), (None, N)], Appends);
reach_h!(reach_setitem, 1, 6, [(EmptyDict, N), (None, N), (None, N)], SetItem);
reach_h!(reach_setitems, 1, 9, [(EmptyDict, N), (Mark, N), (None, N), (None, N)], SetItems);
reach_h!(reach_additems, 4, 8, [(EmptySet, N), (Mark, N), (None, N)], AddItems);
reach_h!(reach_dict, 0, 8, [(Mark, N), (None, N), (None, N)], Dict);
reach_h!(reach_list, 0, 6, [(Mark, N)], List);
reach_h!(reach_tuple, 0, 6, [(Mark, N)], Tuple);
reach_h!(reach_frozenset, 4, 6, [(Mark, N)], FrozenSet);
reach_h!(reach_pop_mark, 1, 6, [(Mark, N)], PopMark);
reach_h!(reach_tuple1, 2, 6, [(None, N)], Tuple1);
reach_h!(reach_tuple2, 2, 6, [(None, N), (None, N)], Tuple2);
reach_h!(reach_tuple3, 2, 6, [(None, N), (None, N), (None, N)], Tuple3);
reach_h!(reach_reduce, 2, 6, [(Ext1, E1), (EmptyTuple, N)], Reduce);
reach_h!(reach_newobj, 2, 6, [(Ext1, E1), (EmptyTuple, N)], NewObj);
reach_h!(reach_newobj_ex, 4, 6, [(Ext1, E1), (EmptyTuple, N), (EmptyDict, N)], NewObjEx);
reach_h!(reach_build, 2, 6, [(Ext1, E1), (EmptyTuple, N), (Reduce, N), (EmptyTuple, N)], Build);
reach_h!(reach_inst, 0, 8, [(Mark, N), (None, N)], Inst);
reach_h!(reach_obj, 2, 8, [(Mark, N), (Ext1, E1)], Obj);
reach_h!(reach_stack_global, 4, 6, [(BinUnicode, EMPTY), (BinUnicode, EMPTY)], StackGlobal);
reach_h!(reach_put, 0, 6, [(None, N)], Put);
reach_h!(reach_binput, 1, 6, [(None, N)], BinPut);
reach_h!(reach_long_binput, 1, 6, [(None, N)], LongBinPut);
reach_h!(reach_memoize, 4, 6, [(None, N)], Memoize);
reach_h!(reach_binpersid, 1, 6, [(None, N)], BinPersID);
reach_h!(reach_readonly_buffer, 5, 6, [(NextBuffer, N)], ReadOnlyBuffer);
