//! Family MUT(gate) (C15): the rate gate of every mutator method at rate 0.0 and 1.0, both entropy sources.
//! rate 0.0 => `None` / output untouched for every value and entropy state;
//! rate 1.0 => `Some(_)` whenever the mutator is applicable to the value.
use super::stubs::*;
use crate::generator::source::{EntropySource, GenerationSource};
use crate::mutators::*;
use arbitrary::Unstructured;

macro_rules! arb_src {
    ($s:ident, $n:expr, $body:block) => {{
        let data: [u8; $n] = kani::any();
        let len: usize = kani::any();
        kani::assume(len <= $n);
        let mut u = Unstructured::new(&data[..len]);
        let mut $s = GenerationSource::Arbitrary(&mut u);
        $body
    }};
}
macro_rules! rng_src {
    ($s:ident, $body:block) => {{
        let mut rng = fresh_rng();
        let mut $s = GenerationSource::Rand(&mut rng);
        $body
    }};
}

/// gate harness pair (arbitrary / rng) for a method taking a Copy scalar
macro_rules! gate_scalar {
    ($arb0:ident, $arb1:ident, $rng0:ident, $rng1:ident, $mk:expr, $meth:ident, $ty:ty) => {
        #[kani::proof]
        #[kani::unwind(20)]
        fn $arb0() {
            arb_src!(s, 16, {
                let v: $ty = kani::any();
                let r = $mk.$meth(v, &mut s, 0.0);
                assert!(r.is_none(), "rate 0.0 must never mutate");
                kani::cover!(true);
            });
        }
        #[kani::proof]
        #[kani::unwind(20)]
        fn $arb1() {
            arb_src!(s, 16, {
                let v: $ty = kani::any();
                let r = $mk.$meth(v, &mut s, 1.0);
                assert!(r.is_some(), "rate 1.0 must always mutate");
                kani::cover!(true);
            });
        }
        #[kani::proof]
        #[kani::unwind(4)]
        #[kani::stub(<rand_chacha::ChaCha8Rng as rand::RngCore>::next_u32, rng_any_u32)]
        #[kani::stub(<rand_chacha::ChaCha8Rng as rand::RngCore>::next_u64, rng_any_u64)]
        fn $rng0() {
            rng_src!(s, {
                let v: $ty = kani::any();
                let r = $mk.$meth(v, &mut s, 0.0);
                assert!(r.is_none(), "rate 0.0 must never mutate");
                kani::cover!(true);
            });
        }
        #[kani::proof]
        #[kani::unwind(4)]
        #[kani::stub(<rand_chacha::ChaCha8Rng as rand::RngCore>::next_u32, rng_any_u32)]
        #[kani::stub(<rand_chacha::ChaCha8Rng as rand::RngCore>::next_u64, rng_any_u64)]
        fn $rng1() {
            rng_src!(s, {
                let v: $ty = kani::any();
                let r = $mk.$meth(v, &mut s, 1.0);
                assert!(r.is_some(), "rate 1.0 must always mutate");
                kani::cover!(true);
            });
        }
    };
}

gate_scalar!(gate_bitflip_int_arb_r0, gate_bitflip_int_arb_r1, gate_bitflip_int_rng_r0, gate_bitflip_int_rng_r1, BitFlipMutator, mutate_int, i32);
gate_scalar!(gate_bitflip_long_arb_r0, gate_bitflip_long_arb_r1, gate_bitflip_long_rng_r0, gate_bitflip_long_rng_r1, BitFlipMutator, mutate_long, i64);
gate_scalar!(gate_boundary_int_arb_r0, gate_boundary_int_arb_r1, gate_boundary_int_rng_r0, gate_boundary_int_rng_r1, BoundaryMutator, mutate_int, i32);
gate_scalar!(gate_boundary_long_arb_r0, gate_boundary_long_arb_r1, gate_boundary_long_rng_r0, gate_boundary_long_rng_r1, BoundaryMutator, mutate_long, i64);
gate_scalar!(gate_boundary_float_arb_r0, gate_boundary_float_arb_r1, gate_boundary_float_rng_r0, gate_boundary_float_rng_r1, BoundaryMutator, mutate_float, f64);
gate_scalar!(gate_offbyone_int_arb_r0, gate_offbyone_int_arb_r1, gate_offbyone_int_rng_r0, gate_offbyone_int_rng_r1, OffByOneMutator, mutate_int, i32);
gate_scalar!(gate_offbyone_long_arb_r0, gate_offbyone_long_arb_r1, gate_offbyone_long_rng_r0, gate_offbyone_long_rng_r1, OffByOneMutator, mutate_long, i64);
gate_scalar!(gate_offbyone_memo_arb_r0, gate_offbyone_memo_arb_r1, gate_offbyone_memo_rng_r0, gate_offbyone_memo_rng_r1, OffByOneMutator, mutate_memo_index, usize);
gate_scalar!(gate_memoidx_safe_arb_r0, gate_memoidx_safe_arb_r1, gate_memoidx_safe_rng_r0, gate_memoidx_safe_rng_r1, MemoIndexMutator::new(false), mutate_memo_index, usize);
gate_scalar!(gate_memoidx_unsafe_arb_r0, gate_memoidx_unsafe_arb_r1, gate_memoidx_unsafe_rng_r0, gate_memoidx_unsafe_rng_r1, MemoIndexMutator::new(true), mutate_memo_index, usize);
