"""Registry of verification units: which harness decides which property, in which tier, under which bounds
and stubs.  The driver (/verif/check) runs exactly what is listed here and reports what it ran."""

import os

UNITS = []

RNG_STUBS = ["rng_any_u32/u64/fill: ChaCha8 core replaced by an arbitrary word stream (superset of every seed)"]


def H(name, file, fam, props, tier, bound, stubs=(), funcs=(), native=True, cost=1, thorough_only_for=()):
    """One Kani proof harness.  tier: 'quick' (run in both tiers) or 'thorough' (thorough tier only);
    thorough_only_for: properties for which a quick unit is nevertheless run in the thorough tier only."""
    UNITS.append(dict(kind="kani", name=name, file=file, fam=fam, props=list(props), tier=tier, bound=bound,
                      stubs=list(stubs), funcs=list(funcs), native=native, cost=cost,
                      thorough_only_for=list(thorough_only_for)))


# ---------------------------------------------------------------------------------------------------
# ENT — entropy adapters (C18; panic-freedom also serves C09)
ENT_FUNCS = ["<GenerationSource as EntropySource>::{choose_index,gen_range,gen_ascii_char,gen_bytes,gen_bool,gen_u8,gen_u16,gen_u32,gen_i32,gen_i64,gen_f64}",
             "arbitrary::Unstructured::{choose_index,int_in_range,arbitrary,bytes}", "rand::Rng::{random_range,random}"]
ARB16 = "fuzzer bytes: every string of length 0..16 (symbolic content and length)"
for n, b in [("ent_arb_choose_index", "n: all usize; " + ARB16),
             ("ent_arb_gen_range", "a,b: all usize; " + ARB16),
             ("ent_arb_ascii_char", ARB16),
             ("ent_arb_exhausted_fallbacks", "empty input; n,a,b all usize; every draw method"),
             ("ent_arb_scalars_total", ARB16 + "; seven scalar draws in sequence"),
             ("ent_arb_bytes_0", "len 0; " + ARB16), ("ent_arb_bytes_1", "len 1; " + ARB16),
             ("ent_arb_bytes_3", "len 3; " + ARB16), ("ent_arb_bytes_8", "len 8; " + ARB16)]:
    H(n, "ent.rs", "ENT", ["C18", "C09"], "quick", b, funcs=ENT_FUNCS)
for n, b in [("ent_rng_choose_index", "n <= 1024; all PRNG word streams"),
             ("ent_rng_gen_range", "a,b usize with b-a <= 1024; all PRNG word streams"),
             ("ent_rng_ascii_char_and_f64", "all PRNG word streams"),
             ("ent_rng_bytes_0", "len 0"), ("ent_rng_bytes_3", "len 3"), ("ent_rng_bytes_8", "len 8")]:
    H(n, "ent.rs", "ENT", ["C18", "C09"], "quick", b, stubs=RNG_STUBS, funcs=ENT_FUNCS)

# ---------------------------------------------------------------------------------------------------
# MUT(gate) — C15
GATE_SITES = [("bitflip_int", "BitFlipMutator::mutate_int"), ("bitflip_long", "BitFlipMutator::mutate_long"),
              ("boundary_int", "BoundaryMutator::mutate_int"), ("boundary_long", "BoundaryMutator::mutate_long"),
              ("boundary_float", "BoundaryMutator::mutate_float"), ("offbyone_int", "OffByOneMutator::mutate_int"),
              ("offbyone_long", "OffByOneMutator::mutate_long"), ("offbyone_memo", "OffByOneMutator::mutate_memo_index"),
              ("memoidx_safe", "MemoIndexMutator(safe)::mutate_memo_index"),
              ("memoidx_unsafe", "MemoIndexMutator(unsafe)::mutate_memo_index")]
for site, fn in GATE_SITES:
    for src in ("arb", "rng"):
        for r in ("r0", "r1"):
            H("gate_%s_%s_%s" % (site, src, r), "mutg.rs", "MUT(gate)", ["C15", "C09"], "quick",
              "rate %s; every value of the argument type; %s" % ("0.0" if r == "r0" else "1.0",
                                                                 ARB16 if src == "arb" else "all PRNG word streams"),
              stubs=RNG_STUBS if src == "rng" else [], funcs=[fn, "GenerationSource::gen_f64"], thorough_only_for=["C09"])

# ---------------------------------------------------------------------------------------------------
# TAIL — cleanup_for_stop against shadow-state contracts (C01, C05, C09, C10, C11)
ENV_STUBS = ["rs_conc: RandomState::new returns constant hasher keys (the real one issues a getrandom syscall)",
             "rc_drop_slow_noop: Rc::drop_slow is a no-op (simulated cells are never freed; no claimed property observes freeing)"]
TAIL_CONTRACTS = ["contracts (shadow stack of depth + MARK positions) for Generator::{has_mark,peek,pop,emit_opcode} and Stack::len; "
                  "emit_opcode's contract asserts the reference precondition and applies the reference step (established on the real "
                  "callees by families GUARD/STEP)"]
H("tail_collapse_n5", "tail.rs", "TAIL", ["C01", "C05", "C09", "C10", "C11"], "quick",
  "every stack of depth 0..5 with every MARK pattern, every protocol 0..5", stubs=ENV_STUBS + TAIL_CONTRACTS,
  funcs=["Generator::cleanup_for_stop"], cost=3)
H("tail_collapse_n8", "tail.rs", "TAIL", ["C01", "C05", "C09", "C10", "C11"], "thorough",
  "every stack of depth 0..8 with every MARK pattern, every protocol 0..5", stubs=ENV_STUBS + TAIL_CONTRACTS,
  funcs=["Generator::cleanup_for_stop"], cost=6)

# ---------------------------------------------------------------------------------------------------
# HEAD — generate_from_arbitrary/generate -> generate_internal against contracts of its multi-step callees
HEAD_CONTRACTS = ["contracts for Generator::{get_valid_opcodes (non-empty list), emit_and_process (appends k arbitrary bytes after the "
                  "current end, k fixed per instance; counts the call), cleanup_for_stop (appends k arbitrary bytes)} — each no stronger "
                  "than what GUARD/EMIT/POST/TAIL establish on the real callee"]
HEAD_FUNCS = ["Generator::generate_from_arbitrary", "Generator::generate_internal", "Generator::emit_proto",
              "Generator::weighted_choice", "Generator::emit_opcode(Stop)", "Generator::reset", "State::reset",
              "GenerationSource::{gen_bool,choose_index}"]
LAY = ["C05", "C06", "C04", "C09", "C11"]
for n, tier, b, cost in [
    ("head_layout_t0_k00", "thorough", "T=0, contracts append 0/0 bytes", 4),
    ("head_layout_t0_k01", "quick", "T=0, tail contract appends 1 arbitrary byte", 4),
    ("head_layout_t1_k10", "quick", "T=1, body contract appends 1 arbitrary byte", 5),
    ("head_layout_t1_k21", "thorough", "T=1, body appends 2 bytes, tail 1", 6),
    ("head_layout_t2_k12", "thorough", "T=2, body appends 1 byte per call, tail 2", 8),
]:
    H(n, "head.rs", "HEAD(layout)", LAY, tier, "every protocol 0..5; fuzzer bytes: every string of length 0..2; " + b,
      stubs=ENV_STUBS + HEAD_CONTRACTS, funcs=HEAD_FUNCS, cost=cost)
H("head_layout_p5_t2_k12_len8", "head.rs", "HEAD(layout)", LAY, "thorough",
  "protocol 5; fuzzer bytes: every string of length 0..8; T=2, body appends 1 byte per call, tail 2",
  stubs=ENV_STUBS + HEAD_CONTRACTS, funcs=HEAD_FUNCS, cost=6)
H("head_layout_rng_t1_k11", "head.rs", "HEAD(layout)", LAY, "thorough",
  "generate() with every u64 seed value (seed_from_u64 real, ChaCha core = arbitrary word stream); every protocol; T=1, appends 1/1",
  stubs=ENV_STUBS + HEAD_CONTRACTS + RNG_STUBS + ["seed_fresh: ChaCha8Rng::from_seed returns the word-stream generator"],
  funcs=HEAD_FUNCS + ["Generator::generate"], cost=5)
CNT = ["C11", "C09"]
H("head_count_t2", "head.rs", "HEAD(count)", CNT, "quick",
  "min,max symbolic in 0..2 (incl. min>max, equal, zero); every protocol; fuzzer bytes 0..2; contracts append nothing",
  stubs=ENV_STUBS + HEAD_CONTRACTS, funcs=HEAD_FUNCS, cost=3)
H("head_count_t4_len4", "head.rs", "HEAD(count)", CNT, "thorough",
  "min,max symbolic in 0..4; every protocol; fuzzer bytes 0..4", stubs=ENV_STUBS + HEAD_CONTRACTS, funcs=HEAD_FUNCS, cost=3)
H("head_count_max_any", "head.rs", "HEAD(count)", CNT, "quick",
  "min <= 3, max any usize (<= 3 or exhausted input so that T <= 3); every protocol", stubs=ENV_STUBS + HEAD_CONTRACTS,
  funcs=HEAD_FUNCS, cost=3)
H("head_count_rng_t2", "head.rs", "HEAD(count)", CNT, "thorough",
  "generate() with every u64 seed; min,max symbolic in 0..2; every protocol",
  stubs=ENV_STUBS + HEAD_CONTRACTS + RNG_STUBS + ["seed_fresh: ChaCha8Rng::from_seed returns the word-stream generator"],
  funcs=HEAD_FUNCS + ["Generator::generate"], cost=3)
for n, tier, b, cost in [
    ("head_reuse_t1_noreset", "quick", "second call without reset(); T=1", 4),
    ("head_reuse_t1_reset", "thorough", "second call after reset(); T=1", 6),
    ("head_reuse_t0_noreset", "quick", "second call without reset(); T=0", 3),
]:
    H(n, "head.rs", "HEAD(reuse)", ["C08", "C09", "C06", "C05"], tier,
      "every protocol; fuzzer bytes 0..2; used generator = arbitrary junk output byte + one stack item + arbitrary PROTO flag "
      "(native replay: a real earlier call on 4 arbitrary bytes); deterministic contracts; " + b,
      stubs=ENV_STUBS + HEAD_CONTRACTS, funcs=HEAD_FUNCS, cost=cost)

# ---------------------------------------------------------------------------------------------------
# GUARD / STEP — per-opcode instances stamped by gen_instances.py
import gen_instances as _gi
HEAP_STUBS = ENV_STUBS + [
    "hm_len_any / hm_is_empty_any: HashMap::len / is_empty return a symbolic memo size m (key set {0..m-1}: contiguity invariant, family MEMO-PUT); "
    "native replay builds a real table with m entries"]
STEP_STUBS = HEAP_STUBS + [
    "hm_insert_forget / hs_insert_forget: HashMap::insert / HashSet::insert discard their arguments (contents of simulated dict/set objects are "
    "never read by a guard or effect: assumption A1)",
    "so_clone_flat: <StackObject as Clone>::clone is variant-preserving with canonical payload (A1)",
    "f64_from_str_any: <f64 as FromStr>::from_str returns an arbitrary value (FLOAT arm)",
    "c_put / c_get: Generator::{put,get} operate on a shadow memo (recorded index/kind); native replay uses the real table"]
_ALPH = "all 18 StackObject variants per slot, one optional DUP-style alias pair, all flag values, memo size m symbolic"
for i in _gi.guard_instances():
    if i["macro"] == "guard_h":
        props = ["C01", "C03", "C09"]
        if i["opname"] in ("PUT", "BINPUT", "LONG_BINPUT", "MEMOIZE", "GET", "BINGET", "LONG_BINGET"):
            props.append("C02")
        if i["opname"] in ("EXT1", "EXT2", "EXT4", "NEXT_BUFFER", "READONLY_BUFFER"):
            props.append("C10")
        if i["opname"] in ("FRAME", "PROTO", "STOP"):
            props += ["C04", "C06", "C05"]
        if i["opname"] == "NONE":
            props.append("C11")
        H(i["name"], "guard.rs", "GUARD", props, i["tier"],
          "%s at stack depth %d: %s (m <= 300)" % (i["opname"], i["n"], _ALPH), stubs=HEAP_STUBS, thorough_only_for=["C09"],
          funcs=["Generator::can_emit", "Generator::{peek,peek_at,has_mark,is_*_at,is_*_at_mark,count_items_to_mark,is_callable_above_mark}"],
          cost=1 + i["n"])
    else:
        H(i["name"], "guard.rs", "GUARD(cover)", ["C12"], i["tier"],
          "%s: some state of depth %d enables the opcode (cover query must be satisfiable)" % (i["opname"], i["n"]),
          stubs=HEAP_STUBS, funcs=["Generator::can_emit"], cost=1 + i["n"])
for i in _gi.guard_all_instances():
    if i["macro"] == "guard_all":
        H(i["name"], "guard.rs", "GUARD", ["C01", "C03", "C02", "C10", "C04", "C05", "C06", "C11", "C09"], "quick",
          "%d opcodes (depth 0: all 68; 1-2: every opcode whose guard reads the stack or memo; 3: MARK-slice and 3-operand opcodes) at stack depth %d "
          "in one query: %s (m <= 300); same assertions as the per-opcode instances" % (len(i["ops"]), i["n"], _ALPH),
          stubs=HEAP_STUBS, funcs=["Generator::can_emit", "Generator::{peek,peek_at,has_mark,is_*_at,is_*_at_mark,count_items_to_mark,is_callable_above_mark}"],
          cost=20 + 10 * i["n"], thorough_only_for=["C09"] + (["C01", "C02", "C10", "C04", "C05", "C06", "C11"] if i["n"] >= 3 else []))
    else:
        H(i["name"], "guard.rs", "GUARD(cover)", ["C12"], "quick",
          "cover queries for %d opcodes whose guard needs depth %d: some state of that depth enables each (every cover must be satisfiable)" % (len(i["ops"]), i["n"]),
          stubs=HEAP_STUBS, funcs=["Generator::can_emit"], cost=5 + 5 * i["n"])
for i in _gi.guard_shape_instances():
    H(i["name"], "guard.rs", "GUARD(shape)", ["C01", "C03", "C09"], i["tier"],
      "%s on the shape [x, MARK, %d items]: x any of the 18 variants, items in {NONE, TUPLE, CALLABLE, MARK}; flags symbolic"
      % (i["opname"], i["n"]), stubs=HEAP_STUBS, funcs=["Generator::can_emit", "Generator::{has_mark,is_*_at_mark,count_items_to_mark,is_callable_above_mark}"],
      cost=2 + i["n"], thorough_only_for=["C09"])
for n, ops in [("step_chain_consts", "MARK, EMPTY_TUPLE, NONE, EMPTY_LIST, EMPTY_DICT, NEWTRUE"),
               ("step_chain_consts2", "NEWFALSE, EMPTY_SET, NEXT_BUFFER, EXT1, EXT2, EXT4"),
               ("step_chain_ints_bin", "BININT, BININT1, BININT2, LONG1, LONG4"),
               ("step_chain_floats_bytes", "FLOAT, BINFLOAT, BINBYTES, SHORT_BINBYTES, BINBYTES8, BYTEARRAY8"),
               ("step_chain_bytes2", "BINSTRING, SHORT_BINSTRING")]:
    H(n, "step.rs", "STEP(chain)", ["C17", "C01", "C03", "C09", "C11"], "quick",
      "value-pushing opcodes %s applied one after the other from a symbolic 1-slot stack, the relation re-checked after every step; "
      "well-formed symbolic argument bytes" % ops, stubs=STEP_STUBS, funcs=["Generator::process_stack_ops (value-pushing arms)"], cost=12,
      thorough_only_for=["C09", "C11"])
for i in _gi.step_instances():
    memo = i["opname"] in ("PUT", "BINPUT", "LONG_BINPUT", "MEMOIZE", "GET", "BINGET", "LONG_BINGET")
    borrow = i["opname"] in ("APPEND", "APPENDS", "SETITEM", "SETITEMS", "ADDITEMS", "BUILD")
    text = i["opname"] in ("STRING", "UNICODE", "BINUNICODE", "SHORT_BINUNICODE", "BINUNICODE8", "PERSID", "INT", "LONG")
    md = _gi.MINDEPTH.get(i["opname"], 0)
    minimal = i["n"] <= max(md, 1)
    # quick membership per property (each quick check has 900 s on a machine about half as fast as this one):
    #   C17 (simulation relation): every quick STEP unit;  C01 / C03: minimal depth only, no text opcodes (C01) ...
    tof = ([] if borrow else ["C09", "C11"])
    if i["opname"] in ("PUT", "BINPUT", "LONG_BINPUT"):
        tof += ["C01", "C03", "C17"]
    else:
        if text or not minimal:
            tof += ["C01"]
        if not minimal or (text and i["opname"] not in ("STRING", "UNICODE")):
            tof += ["C03"]
        if not minimal:
            tof += ["C17"]
    H(i["name"], "step.rs", "STEP", ["C17", "C01", "C03", "C09"] + (["C02"] if memo else []) + (["C11"] if i["n"] <= 1 else []), i["tier"],
      "%s from every state of depth %d in which can_emit holds: %s (m <= 4); well-formed argument bytes (%s)"
      % (i["opname"], i["n"], _ALPH, i["arg"]), stubs=STEP_STUBS,
      funcs=["Generator::process_stack_ops(%s)" % i["opname"], "Generator::{push,pop,peek}", "Stack::{push,pop}"], cost=2 + 2 * i["n"],
      thorough_only_for=tof)

# ---------------------------------------------------------------------------------------------------
# EMIT — emit_and_process per opcode, process_stack_ops replaced by a recorder
EMIT_STUBS = HEAP_STUBS + [
    "c_pso: Generator::process_stack_ops is a recorder (opcode + argument bytes); the harness asserts it was called exactly once with the "
    "emitted opcode and exactly the emitted argument (ties layer L2 to STEP)",
    "module_contract: Generator::get_random_module returns \"m\\na\\n\" with one printable non-backslash ASCII character per name (assumed; "
    "backed by the data scan of data/stdlib_complete.txt)"]
for i in _gi.emit_instances():
    o = i["opname"]
    props = ["C04", "C09", "C11", "C17"]
    if i["mutk"] != 9:
        props += ["C05", "C01"]
    if o in ("PUT", "BINPUT", "LONG_BINPUT"):
        props.append("C02")
    props.append("C10")
    if i["mutk"] in (8, 9):
        props += ["C06", "C16"]
    st = list(EMIT_STUBS)
    for e in i["extra"]:
        if "fmt::format" in e:
            st.append("fmt_float_line: alloc::fmt::format returns an arbitrary one-digit float literal line (FLOAT arm only; Display for f64 is outside the claim)")
        if "str::replace" in e:
            st.append("str_replace_char: str::replace on the empty string only")
    H(i["name"], "emit.rs", "EMIT", props, i["tier"], "%s: %s; memo size m <= 70000; rate in [0,1]; flags symbolic" % (o, i["bound"]),
      stubs=st, funcs=["Generator::emit_and_process(%s)" % o, "Generator::{emit_int,emit_string,emit_bytes,emit_global,emit_opcode,mutate_*,create_snapshot,post_process_emission}"],
      cost=3 if i["tier"] == "quick" else 8,
      thorough_only_for=([] if o in ("NONE", "APPEND", "BINBYTES") else ["C01", "C09", "C17"])
      + ([] if o in ("NONE", "APPEND", "BINBYTES", "BINPUT", "LONG_BINPUT", "SHORT_BINBYTES", "SHORT_BINSTRING", "INST", "GLOBAL", "EXT1") else ["C11"])
      + (["C04", "C05", "C10"] if o == "PUT" else []))

for n, op, b in [("emit_short_binbytes_maxlen_stringlen", "SHORT_BINBYTES", "string-length mutator at symbolic rate"),
                 ("emit_short_binstring_maxlen_stringlen", "SHORT_BINSTRING", "string-length mutator at symbolic rate"),
                 ("emit_binbytes_maxlen_stringlen", "BINBYTES", "string-length mutator at symbolic rate"),
                 ("emit_short_binbytes_maxlen_none", "SHORT_BINBYTES", "no mutators")]:
    H(n, "emit.rs", "EMIT(long)", ["C04", "C11", "C09"], "thorough",
      "%s with the length byte 255 (largest base payload: 31 bytes), %s; "
      "payload content concrete (zeros), the mutator's entropy symbolic (16 bytes after the payload); "
      "prefix must equal payload length, one lexeme, simulation argument = payload" % (op, b),
      stubs=ENV_STUBS + ["c_pso recorder"], funcs=["Generator::emit_and_process(%s)" % op, "Generator::emit_bytes", "Generator::mutate_bytes",
                                                   "StringLengthMutator::mutate_bytes"], cost=10)

# ---------------------------------------------------------------------------------------------------
# MEMO-GET — GET-family emitters on the association-list model of the memo table (cargo feature verif_modelmap)
MEMGET_STUBS = ENV_STUBS + [
    "modelmap: the memo's std HashMap is replaced (overlay, cargo feature verif_modelmap) by an association list with real insert/get/"
    "contains_key/len and an ARBITRARY iteration order (every rotation) — hashbrown's table is out of CBMC's reach (no answer in 50 min for one entry)",
    "sort_model: <[usize]>::sort_unstable is an exchange sort for <= 4 elements (std's quicksort does not finish on a vector of symbolic length)",
    "c_pso: process_stack_ops is a recorder (as in EMIT)"]
for i in _gi.memget_instances():
    H(i["name"], "memget.rs", "MEMO-GET", ["C02", "C17", "C03", "C04", "C09"], i["tier"],
      "%s on a memo of %d entries (keys 0..%d), mutator %s at symbolic rate in [0,1], every protocol that has the opcode, fuzzer bytes 0..20, "
      "every iteration order of the table" % (i["opname"], i["n"], i["n"] - 1, _gi.MUTNAME[i["mutk"]]),
      stubs=MEMGET_STUBS, funcs=["Generator::emit_and_process(%s)" % i["opname"], "Generator::mutate_memo_index"], cost=8,
      thorough_only_for=["C04", "C09", "C17", "C03"] if i["opname"] != "BINGET" else ["C04", "C09", "C17"])
    UNITS[-1]["variant"] = "modelmap"
for n, op, k in [("memget_order_binget_n2", "BINGET", 2), ("memget_order_long_binget_n3", "LONG_BINGET", 3), ("memget_order_get_n2", "GET", 2)]:
    H(n, "memget.rs", "MEMO-GET(order)", ["C07", "C02"], "quick" if op == "BINGET" else "thorough",
      "%s twice with equal configuration and entropy (4 bytes) on %d-entry tables that iterate in independent arbitrary orders: equal bytes" % (op, k),
      stubs=MEMGET_STUBS, funcs=["Generator::emit_and_process(%s)" % op], cost=5)
    UNITS[-1]["variant"] = "modelmap"

# ---------------------------------------------------------------------------------------------------
# MUT(first-wins) — dispatch loops of generator/mutation.rs with 2-3 registered mutators
for n, b in [("firstwins_int_offbyone_then_boundary_r1", "[OffByOne, Boundary], rate 1.0: result is v+-1"),
             ("firstwins_int_boundary_then_offbyone_r1", "[Boundary, OffByOne], rate 1.0: result is a boundary constant"),
             ("firstwins_int_skips_inapplicable_r1", "[StringLength, Character, OffByOne], rate 1.0: mutators without an int method are skipped"),
             ("firstwins_int_three_r0", "[OffByOne, Boundary, BitFlip], rate 0.0: unchanged"),
             ("firstwins_float_r1", "[OffByOne, Boundary], rate 1.0: boundary float"), ("firstwins_float_r0", "[Boundary, BitFlip], rate 0.0: unchanged"),
             ("firstwins_memo_offbyone_then_unsafe_r1", "[OffByOne, MemoIndex(unsafe)], rate 1.0: saturating +-1"),
             ("firstwins_memo_r0", "[MemoIndex(unsafe), OffByOne], rate 0.0: unchanged"),
             ("firstwins_memo_unsafe_first_r1", "[MemoIndex(unsafe), OffByOne] on a generator whose own unsafe flag is off, rate 1.0, index >= 2000: result < 1000"),
             ("firstwins_bytes_character_declines_empty_r1", "[Character, StringLength] on the empty byte string, rate 1.0: Character declines, StringLength fires"),
             ("firstwins_bytes_character_first_r1", "[Character, StringLength] on 2 symbolic bytes, rate 1.0: Character's contract"),
             ("firstwins_bytes_r0", "[StringLength, Character] on 2 symbolic bytes, rate 0.0: unchanged")]:
    H(n, "mutf.rs", "MUT(first-wins)", ["C15", "C16", "C09"], "quick", b + "; every value; fuzzer bytes 0..24",
      stubs=ENV_STUBS, funcs=["Generator::{mutate_int,mutate_float,mutate_bytes,mutate_memo_index}"], cost=2, thorough_only_for=["C09"])

# ---------------------------------------------------------------------------------------------------
# REACH — enabling recipes on the real generator (C12)
for t in ["pop", "dup", "append", "appends", "setitem", "setitems", "additems", "dict", "list", "tuple", "frozenset", "pop_mark", "tuple1",
          "tuple2", "tuple3", "reduce", "newobj", "newobj_ex", "build", "inst", "obj", "stack_global", "put", "binput", "long_binput",
          "memoize", "binpersid", "readonly_buffer"]:
    H("reach_" + t, "reach.rs", "REACH", ["C12", "C09"], "quick",
      "%s: shortest enabling recipe from the empty stack, every step guarded by the real can_emit and executed by the real process_stack_ops "
      "(concrete opcodes; EXT1 with the opt-in flag as the callable producer)" % t.upper(),
      stubs=ENV_STUBS + ["hm_insert_forget / hs_insert_forget / so_clone_flat as in STEP"],
      funcs=["Generator::can_emit", "Generator::process_stack_ops"], cost=2, thorough_only_for=["C09"])

# ---------------------------------------------------------------------------------------------------
# TABLE
H("table_as_u8_matches_cpython", "table.rs", "TABLE", ["C04", "C05", "C12"], "quick", "all 68 opcode kinds (symbolic index)",
  funcs=["OpcodeKind::as_u8"])
for pp in range(6):
    _tof = [] if pp in (0, 2, 5) else ["C05", "C11"]
    H("table_sound_p%d" % pp, "table.rs", "TABLE", ["C05", "C12"], "quick",
      "protocol %d: every entry (symbolic index) introduced in protocol <= P; no entry twice (symbolic index pair)" % pp, funcs=["PICKLE_OPCODES"],
      thorough_only_for=_tof)
    H("table_complete_p%d" % pp, "table.rs", "TABLE", ["C12", "C05", "C11"], "quick",
      "protocol %d: every CPython opcode with proto <= P (symbolic index) is listed" % pp, funcs=["PICKLE_OPCODES"], thorough_only_for=_tof)

# ---------------------------------------------------------------------------------------------------
# MUT(contract), POST — C16
MUTC = [("bitflip_int", "BitFlipMutator::mutate_int: exactly one bit differs"), ("bitflip_long", "BitFlipMutator::mutate_long: exactly one bit differs"),
        ("boundary_int", "BoundaryMutator::mutate_int: one of 0,-1,1,MAX,MIN"), ("boundary_long", "BoundaryMutator::mutate_long"),
        ("boundary_float", "BoundaryMutator::mutate_float: one of the 8 listed constants (NaN by is_nan)"),
        ("offbyone_int", "OffByOneMutator::mutate_int: wrapping +-1"), ("offbyone_long", "OffByOneMutator::mutate_long: wrapping +-1"),
        ("offbyone_memo", "OffByOneMutator::mutate_memo_index: saturating +-1"), ("memoidx_safe", "MemoIndexMutator(safe): |delta| <= 1 saturating"),
        ("memoidx_unsafe", "MemoIndexMutator(unsafe): < 1000")]
for site, what in MUTC:
    H("mutc_%s_arb" % site, "mutc.rs", "MUT(contract)", ["C16", "C09"], "quick",
      what + "; every argument value; rate symbolic in [0,1]; fuzzer bytes 0..24", funcs=[what.split(":")[0]], thorough_only_for=["C09"])
    H("mutc_%s_rng" % site, "mutc.rs", "MUT(contract)", ["C16", "C09"], "quick",
      what + "; every argument value; rate symbolic in [0,1]; all PRNG word streams", stubs=RNG_STUBS, funcs=[what.split(":")[0]], thorough_only_for=["C09"])
for L in range(4):
    H("mutc_character_bytes_l%d" % L, "mutc.rs", "MUT(contract)", ["C16", "C09"], "quick",
      "CharacterMutator::mutate_bytes on every byte string of length %d: same length, <= 1 position changed, None on empty; rate symbolic; fuzzer bytes 0..20" % L,
      funcs=["CharacterMutator::mutate_bytes"], cost=2)
    H("mutc_stringlen_bytes_l%d" % L, "mutc.rs", "MUT(contract)", ["C16", "C09"], "quick" if L == 2 else "thorough",
      "StringLengthMutator::mutate_bytes on every byte string of length %d: prefix | +1..9 items | doubled; rate symbolic; fuzzer bytes 0..20" % L,
      funcs=["StringLengthMutator::mutate_bytes"], cost=6)
H("mutc_character_string_empty_arb", "mutc.rs", "MUT(contract)", ["C16", "C09"], "quick",
  "CharacterMutator::mutate_string on the empty string (String-typed methods on non-empty strings are outside Kani's reach)",
  funcs=["CharacterMutator::mutate_string"])
for n, tier, b, cost in [("post_tc_safe_d1", "quick", "safe-mode TypeConfusion on a 1-byte emission (any opcode byte): does nothing", 1),
                         ("post_tc_unsafe_d0", "quick", "unsafe TypeConfusion with an empty emission: does nothing", 1),
                         ("post_tc_unsafe_d1", "thorough", "unsafe TypeConfusion on a 1-byte emission with an arbitrary opcode byte", 9),
                         ("post_tc_unsafe_d3", "thorough", "unsafe TypeConfusion on a 3-byte emission with arbitrary bytes", 9)]:
    H(n, "mutc.rs", "POST", ["C16", "C06", "C10", "C04", "C15", "C09"], tier,
      b + "; rate symbolic in [0,1]; fuzzer bytes 0..24; earlier output untouched, replacement = exactly one value-pushing lexeme of another kind",
      funcs=["TypeConfusionMutator::post_process", "TypeConfusionMutator::{opcode_to_type,choose_wrong_type,generate_opcode_for_type}"], cost=cost)

# ---------------------------------------------------------------------------------------------------
# non-Kani units: ESC (SMT encoding of the escaping chains) and syntactic side conditions of stubs/assumptions
def U(kind, name, fam, props, tier, bound, **kw):
    d = dict(kind=kind, name=name, file="esc", fam=fam, props=list(props), tier=tier, bound=bound, stubs=[], funcs=[], cost=1,
             thorough_only_for=[])
    d.update(kw)
    UNITS.append(d)


U("esc", "esc_string_chain", "ESC", ["C04", "C05"], "quick",
  "STRING arm: every input string of length 0..6 (thorough: 0..8) over bytes 0x00..0x7f; chain parsed from emission.rs; z3 5.1 and cvc5 must agree",
  arm="String", funcs=["emit_string: String arm `.replace` chain + format!"],
  stubs=["str::replace(char, &str) is per-character replacement (std's documented contract); translator validated against the compiled code on ~250 strings per run"])
U("esc", "esc_unicode_chain", "ESC", ["C04", "C05"], "quick",
  "UNICODE arm: every input string of length 0..6 (thorough: 0..8) over printable ASCII 0x20..0x7e (assumption A2)",
  arm="Unicode", funcs=["emit_string: Unicode arm `.replace` chain + format!"],
  stubs=["A2: strings reaching emit_string's match are printable ASCII (gen_ascii_char: ENT; Character/StringLength additions by reading)"])
U("side", "side_a1_payload_free", "SIDE", ["C01", "C03", "C17"], "quick",
  "syntactic: no guard in validation.rs/utils.rs binds a StackObject payload; effect arms bind payloads only at the listed container sites")
U("side", "side_replace_char_patterns", "SIDE", ["C04"], "quick", "syntactic: every .replace( in src/generator has a char-literal pattern")
U("side", "oracle_vs_cpython", "ORACLE", ["C01", "C02", "C03", "C04", "C05", "C17"], "quick",
  "differential validation of the oracle itself: reference lexer + reference machine vs CPython pickletools.genops/dis on 4000 (thorough: 20000) "
  "random and pickletools-guided opcode streams (seeded by VERIF_SEED); any disagreement makes the check inconclusive")
U("side", "data_stdlib_scan", "SIDE", ["C04", "C05"], "quick",
  "data: every line of data/stdlib_complete.txt is non-empty printable backslash-free ASCII with a non-empty module part (backs module_contract)")

# ---------------------------------------------------------------------------------------------------
# PURITY — C07 (reduced scope)
PUR = "two runs with equal configuration and entropy return equal bytes; no OS entropy / clock / syscall / FFI reachable (Kani fails on each)"
H("purity_seeded_generate", "purity.rs", "PURITY", ["C07", "C09"], "quick",
  "generate() twice with the same seed (every u64, seed_from_u64 real) on every protocol, T=1, deterministic callee contracts; " + PUR,
  stubs=ENV_STUBS + HEAD_CONTRACTS + RNG_STUBS + ["seed_same_stream: ChaCha8Rng::from_seed returns the same word stream for both runs"],
  funcs=["Generator::generate", "Generator::generate_internal"], cost=8)
H("purity_arbitrary_generate", "purity.rs", "PURITY", ["C07", "C09"], "quick",
  "generate_from_arbitrary() twice with the same bytes (0..2) on every protocol, T=1; " + PUR,
  stubs=ENV_STUBS + HEAD_CONTRACTS, funcs=["Generator::generate_from_arbitrary", "Generator::generate_internal"], cost=6)
for n, what in [("binint1", "integer emitter (protocol 1, BININT1 choice)"), ("binfloat", "BINFLOAT"), ("binbytes", "BINBYTES, 1-byte payload"),
                ("global", "GLOBAL (name contract fixed)"), ("ext2", "EXT2"), ("long_binput", "LONG_BINPUT, memo size <= 200"), ("none", "NONE")]:
    H("purity_emit_" + n, "purity.rs", "PURITY", ["C07"], "quick",
      "emit_and_process twice from equal state and equal fuzzer bytes: %s; %s" % (what, PUR), stubs=EMIT_STUBS,
      funcs=["Generator::emit_and_process"], cost=2)
H("purity_crossgen_int_p2_then_p0", "purity.rs", "PURITY(crossgen)", ["C07", "C05"], "thorough",
  "a protocol-2 generator emits an integer, then a fresh protocol-0 generator does (2 fuzzer bytes each): the second opcode is INT or LONG "
  "(no process-wide state carried between generators)", stubs=ENV_STUBS + ["c_pso recorder"], funcs=["Generator::emit_int"], cost=10)
H("purity_unseeded_mustfail", "purity.rs", "PURITY(twin)", ["C07"], "quick",
  "must-fail twin: generate() WITHOUT a seed must be rejected by Kani (from_os_rng -> getrandom -> dlsym); if it verifies, the impurity detector is broken",
  stubs=ENV_STUBS + HEAD_CONTRACTS, funcs=["Generator::generate"], cost=1)
UNITS[-1]["must_fail"] = "foreign"


def _validated():
    """thorough-only units that have been seen to finish inside the thorough caps on the unchanged tree (a unit that has
    not is attempted work, not part of the registered thorough check: it must never turn a check red by timing out)"""
    import os
    p = os.path.join(os.path.dirname(os.path.abspath(__file__)), "validated_thorough.txt")
    if not os.path.exists(p):
        return None
    with open(p) as fh:
        return set(l.strip() for l in fh if l.strip() and not l.startswith("#"))


def units_for(prop, tier):
    out = []
    val = _validated() if not os.environ.get("VERIF_ALL_UNITS") else None
    for u in UNITS:
        if tier == "thorough" and u["tier"] == "thorough" and val is not None and u["name"] not in val:
            continue
        if prop in u["props"] and (tier == "thorough" or (u["tier"] == "quick" and prop not in u.get("thorough_only_for", ()))):
            out.append(u)
    return out


def all_props():
    s = set()
    for u in UNITS:
        s.update(u["props"])
    return sorted(s)
