"""Registry of verification units: which harness decides which property, in which tier, under which bounds
and stubs.  The driver (/verif/check) runs exactly what is listed here and reports what it ran."""

UNITS = []

RNG_STUBS = ["rng_any_u32/u64/fill: ChaCha8 core replaced by an arbitrary word stream (superset of every seed)"]


def H(name, file, fam, props, tier, bound, stubs=(), funcs=(), native=True, cost=1):
    """One Kani proof harness.  tier: 'quick' (run in both tiers) or 'thorough' (thorough tier only)."""
    UNITS.append(dict(kind="kani", name=name, file=file, fam=fam, props=list(props), tier=tier, bound=bound,
                      stubs=list(stubs), funcs=list(funcs), native=native, cost=cost))


# ---------------------------------------------------------------------------------------------------
# ENT — entropy adapters (C18; panic-freedom also serves C09)
ENT_FUNCS = ["<GenerationSource as EntropySource>::{choose_index,gen_range,gen_ascii_char,gen_bytes,gen_bool,gen_u8,gen_u16,gen_u32,gen_i32,gen_i64,gen_f64}",
             "arbitrary::Unstructured::{choose_index,int_in_range,arbitrary,bytes}", "rand::Rng::{random_range,random}"]
ARB16 = "fuzzer bytes: every string of length 0..16 (symbolic content and length)"
for n, b in [("ent_arb_choose_index", "n: all usize; " + ARB16),
             ("ent_arb_gen_range", "a,b: all usize; " + ARB16),
             ("ent_arb_ascii_char", ARB16),
             ("ent_arb_exhausted_fallbacks", "empty input; n,a,b all usize; every draw method"),
             ("ent_arb_scalars_total", ARB16 + "; seven scalar draws in sequence"),
             ("ent_arb_bytes_0", "len 0; " + ARB16), ("ent_arb_bytes_1", "len 1; " + ARB16),
             ("ent_arb_bytes_3", "len 3; " + ARB16), ("ent_arb_bytes_8", "len 8; " + ARB16)]:
    H(n, "ent.rs", "ENT", ["C18", "C09"], "quick", b, funcs=ENT_FUNCS)
for n, b in [("ent_rng_choose_index", "n <= 1024; all PRNG word streams"),
             ("ent_rng_gen_range", "a,b usize with b-a <= 1024; all PRNG word streams"),
             ("ent_rng_ascii_char_and_f64", "all PRNG word streams"),
             ("ent_rng_bytes_0", "len 0"), ("ent_rng_bytes_3", "len 3"), ("ent_rng_bytes_8", "len 8")]:
    H(n, "ent.rs", "ENT", ["C18", "C09"], "quick", b, stubs=RNG_STUBS, funcs=ENT_FUNCS)

# ---------------------------------------------------------------------------------------------------
# MUT(gate) — C15
GATE_SITES = [("bitflip_int", "BitFlipMutator::mutate_int"), ("bitflip_long", "BitFlipMutator::mutate_long"),
              ("boundary_int", "BoundaryMutator::mutate_int"), ("boundary_long", "BoundaryMutator::mutate_long"),
              ("boundary_float", "BoundaryMutator::mutate_float"), ("offbyone_int", "OffByOneMutator::mutate_int"),
              ("offbyone_long", "OffByOneMutator::mutate_long"), ("offbyone_memo", "OffByOneMutator::mutate_memo_index"),
              ("memoidx_safe", "MemoIndexMutator(safe)::mutate_memo_index"),
              ("memoidx_unsafe", "MemoIndexMutator(unsafe)::mutate_memo_index")]
for site, fn in GATE_SITES:
    for src in ("arb", "rng"):
        for r in ("r0", "r1"):
            H("gate_%s_%s_%s" % (site, src, r), "mutg.rs", "MUT(gate)", ["C15", "C09"], "quick",
              "rate %s; every value of the argument type; %s" % ("0.0" if r == "r0" else "1.0",
                                                                 ARB16 if src == "arb" else "all PRNG word streams"),
              stubs=RNG_STUBS if src == "rng" else [], funcs=[fn, "GenerationSource::gen_f64"])

# ---------------------------------------------------------------------------------------------------
# TAIL — cleanup_for_stop against shadow-state contracts (C01, C05, C09, C10, C11)
ENV_STUBS = ["rs_conc: RandomState::new returns constant hasher keys (the real one issues a getrandom syscall)",
             "rc_drop_slow_noop: Rc::drop_slow is a no-op (simulated cells are never freed; no claimed property observes freeing)"]
TAIL_CONTRACTS = ["contracts (shadow stack of depth + MARK positions) for Generator::{has_mark,peek,pop,emit_opcode} and Stack::len; "
                  "emit_opcode's contract asserts the reference precondition and applies the reference step (established on the real "
                  "callees by families GUARD/STEP)"]
H("tail_collapse_n5", "tail.rs", "TAIL", ["C01", "C05", "C09", "C10", "C11"], "quick",
  "every stack of depth 0..5 with every MARK pattern, every protocol 0..5", stubs=ENV_STUBS + TAIL_CONTRACTS,
  funcs=["Generator::cleanup_for_stop"], cost=3)
H("tail_collapse_n8", "tail.rs", "TAIL", ["C01", "C05", "C09", "C10", "C11"], "thorough",
  "every stack of depth 0..8 with every MARK pattern, every protocol 0..5", stubs=ENV_STUBS + TAIL_CONTRACTS,
  funcs=["Generator::cleanup_for_stop"], cost=6)

# ---------------------------------------------------------------------------------------------------
# HEAD — generate_from_arbitrary/generate -> generate_internal against contracts of its multi-step callees
HEAD_CONTRACTS = ["contracts for Generator::{get_valid_opcodes (non-empty list), emit_and_process (appends k arbitrary bytes after the "
                  "current end, k fixed per instance; counts the call), cleanup_for_stop (appends k arbitrary bytes)} — each no stronger "
                  "than what GUARD/EMIT/POST/TAIL establish on the real callee"]
HEAD_FUNCS = ["Generator::generate_from_arbitrary", "Generator::generate_internal", "Generator::emit_proto",
              "Generator::weighted_choice", "Generator::emit_opcode(Stop)", "Generator::reset", "State::reset",
              "GenerationSource::{gen_bool,choose_index}"]
LAY = ["C05", "C06", "C04", "C09", "C11"]
for n, tier, b, cost in [
    ("head_layout_t0_k00", "thorough", "T=0, contracts append 0/0 bytes", 4),
    ("head_layout_t0_k01", "quick", "T=0, tail contract appends 1 arbitrary byte", 4),
    ("head_layout_t1_k10", "quick", "T=1, body contract appends 1 arbitrary byte", 5),
    ("head_layout_t1_k21", "thorough", "T=1, body appends 2 bytes, tail 1", 6),
    ("head_layout_t2_k12", "thorough", "T=2, body appends 1 byte per call, tail 2", 8),
]:
    H(n, "head.rs", "HEAD(layout)", LAY, tier, "every protocol 0..5; fuzzer bytes: every string of length 0..2; " + b,
      stubs=ENV_STUBS + HEAD_CONTRACTS, funcs=HEAD_FUNCS, cost=cost)
H("head_layout_p5_t2_k12_len8", "head.rs", "HEAD(layout)", LAY, "thorough",
  "protocol 5; fuzzer bytes: every string of length 0..8; T=2, body appends 1 byte per call, tail 2",
  stubs=ENV_STUBS + HEAD_CONTRACTS, funcs=HEAD_FUNCS, cost=6)
H("head_layout_rng_t1_k11", "head.rs", "HEAD(layout)", LAY, "thorough",
  "generate() with every u64 seed value (seed_from_u64 real, ChaCha core = arbitrary word stream); every protocol; T=1, appends 1/1",
  stubs=ENV_STUBS + HEAD_CONTRACTS + RNG_STUBS + ["seed_fresh: ChaCha8Rng::from_seed returns the word-stream generator"],
  funcs=HEAD_FUNCS + ["Generator::generate"], cost=5)
CNT = ["C11", "C09"]
H("head_count_t2", "head.rs", "HEAD(count)", CNT, "quick",
  "min,max symbolic in 0..2 (incl. min>max, equal, zero); every protocol; fuzzer bytes 0..2; contracts append nothing",
  stubs=ENV_STUBS + HEAD_CONTRACTS, funcs=HEAD_FUNCS, cost=3)
H("head_count_t4_len4", "head.rs", "HEAD(count)", CNT, "thorough",
  "min,max symbolic in 0..4; every protocol; fuzzer bytes 0..4", stubs=ENV_STUBS + HEAD_CONTRACTS, funcs=HEAD_FUNCS, cost=3)
H("head_count_max_any", "head.rs", "HEAD(count)", CNT, "quick",
  "min <= 3, max any usize (<= 3 or exhausted input so that T <= 3); every protocol", stubs=ENV_STUBS + HEAD_CONTRACTS,
  funcs=HEAD_FUNCS, cost=3)
H("head_count_rng_t2", "head.rs", "HEAD(count)", CNT, "thorough",
  "generate() with every u64 seed; min,max symbolic in 0..2; every protocol",
  stubs=ENV_STUBS + HEAD_CONTRACTS + RNG_STUBS + ["seed_fresh: ChaCha8Rng::from_seed returns the word-stream generator"],
  funcs=HEAD_FUNCS + ["Generator::generate"], cost=3)
for n, tier, b, cost in [
    ("head_reuse_t1_noreset", "quick", "second call without reset(); T=1", 4),
    ("head_reuse_t1_reset", "thorough", "second call after reset(); T=1", 6),
    ("head_reuse_t0_noreset", "quick", "second call without reset(); T=0", 3),
]:
    H(n, "head.rs", "HEAD(reuse)", ["C08", "C09"], tier,
      "every protocol; fuzzer bytes 0..2; used generator = arbitrary junk output byte + one stack item + arbitrary PROTO flag "
      "(native replay: a real earlier call on 4 arbitrary bytes); deterministic contracts; " + b,
      stubs=ENV_STUBS + HEAD_CONTRACTS, funcs=HEAD_FUNCS, cost=cost)

# ---------------------------------------------------------------------------------------------------
# GUARD / STEP — per-opcode instances stamped by gen_instances.py
import gen_instances as _gi
HEAP_STUBS = ENV_STUBS + [
    "hm_len_any / hm_is_empty_any: HashMap::len / is_empty return a symbolic memo size m (key set {0..m-1}: contiguity invariant, family MEMO-PUT); "
    "native replay builds a real table with m entries"]
STEP_STUBS = HEAP_STUBS + [
    "hm_insert_forget / hs_insert_forget: HashMap::insert / HashSet::insert discard their arguments (contents of simulated dict/set objects are "
    "never read by a guard or effect: assumption A1)",
    "so_clone_flat: <StackObject as Clone>::clone is variant-preserving with canonical payload (A1)",
    "f64_from_str_any: <f64 as FromStr>::from_str returns an arbitrary value (FLOAT arm)",
    "c_put / c_get: Generator::{put,get} operate on a shadow memo (recorded index/kind); native replay uses the real table"]
_ALPH = "all 18 StackObject variants per slot, one optional DUP-style alias pair, all flag values, memo size m symbolic"
for i in _gi.guard_instances():
    if i["macro"] == "guard_h":
        props = ["C01", "C03", "C09", "C10", "C02"] if i["opname"] in ("PUT", "BINPUT", "LONG_BINPUT", "MEMOIZE", "GET", "BINGET", "LONG_BINGET") else ["C01", "C03", "C09", "C10"]
        H(i["name"], "guard.rs", "GUARD", props, i["tier"],
          "%s at stack depth %d: %s (m <= 300)" % (i["opname"], i["n"], _ALPH), stubs=HEAP_STUBS,
          funcs=["Generator::can_emit", "Generator::{peek,peek_at,has_mark,is_*_at,is_*_at_mark,count_items_to_mark,is_callable_above_mark}"],
          cost=1 + i["n"])
    else:
        H(i["name"], "guard.rs", "GUARD(cover)", ["C12"], i["tier"],
          "%s: some state of depth %d enables the opcode (cover query must be satisfiable)" % (i["opname"], i["n"]),
          stubs=HEAP_STUBS, funcs=["Generator::can_emit"], cost=1 + i["n"])
for i in _gi.step_instances():
    memo = i["opname"] in ("PUT", "BINPUT", "LONG_BINPUT", "MEMOIZE", "GET", "BINGET", "LONG_BINGET")
    H(i["name"], "step.rs", "STEP", ["C17", "C01", "C03", "C09"] + (["C02"] if memo else []), i["tier"],
      "%s from every state of depth %d in which can_emit holds: %s (m <= 4); well-formed argument bytes (%s)"
      % (i["opname"], i["n"], _ALPH, i["arg"]), stubs=STEP_STUBS,
      funcs=["Generator::process_stack_ops(%s)" % i["opname"], "Generator::{push,pop,peek}", "Stack::{push,pop}"], cost=2 + 2 * i["n"])


def units_for(prop, tier):
    out = []
    for u in UNITS:
        if prop in u["props"] and (u["tier"] == "quick" or tier == "thorough"):
            out.append(u)
    return out


def all_props():
    s = set()
    for u in UNITS:
        s.update(u["props"])
    return sorted(s)
