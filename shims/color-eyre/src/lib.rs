//! Verification-only stand-in for `color-eyre` (see /verif/DESIGN.md §2.2).
//!
//! The real crate pulls in `backtrace` and `eyre`, neither of which the Kani
//! compiler can build.  Only the items pickle-fuzzer names are provided; an
//! error report is a unit value, so error *paths* are modelled and error
//! *messages* are not.

#[derive(Debug, Clone, Copy, PartialEq, Eq, Default)]
pub struct Report;

pub type Result<T, E = Report> = core::result::Result<T, E>;

impl core::fmt::Display for Report {
    fn fmt(&self, f: &mut core::fmt::Formatter<'_>) -> core::fmt::Result {
        f.write_str("error")
    }
}

impl<E: std::error::Error> From<E> for Report {
    fn from(_: E) -> Self {
        Report
    }
}

pub fn install() -> Result<()> {
    Ok(())
}

pub mod eyre {
    pub use super::{Report, Result};
    pub type Error = Report;

    #[macro_export]
    macro_rules! __verif_eyre {
        ($($t:tt)*) => {
            $crate::Report
        };
    }
    pub use crate::__verif_eyre as eyre;
}
