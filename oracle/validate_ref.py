#!/usr/bin/python3
"""Differential validation of the Rust reference machine/lexer (harness/kani/ref_dis.rs, ref_lex.rs) against CPython:
generate opcode streams, record what pickletools.genops / pickletools.dis say, and let the native test
`oracle_cases` check that the Rust oracle says the same.  Usage: validate_ref.py <out-file> [n] [seed]"""
import io
import pickletools
import random
import struct
import sys

OPS = sorted(pickletools.opcodes, key=lambda o: o.code)


def arg_bytes(o, rnd, memo_n):
    a = o.arg
    if a is None:
        return b""
    n = a.name
    if n == "uint1":
        v = rnd.choice([0, 1, 2, 255, rnd.randrange(256)])
        if o.name in ("BINGET", "BINPUT"):
            v = rnd.choice([memo_n, max(memo_n - 1, 0), 0, memo_n + 1])
        if o.name == "PROTO":
            v = rnd.randrange(0, 6)
        return bytes([v & 255])
    if n == "uint2":
        return struct.pack("<H", rnd.choice([0, 1, 65535, rnd.randrange(65536)]))
    if n in ("uint4", "int4"):
        v = rnd.choice([0, 1, 0x7fffffff, 0x80000000, 0xffffffff, rnd.randrange(1 << 32)])
        if o.name in ("LONG_BINGET", "LONG_BINPUT"):
            v = rnd.choice([memo_n, max(memo_n - 1, 0), 0, memo_n + 1])
        return struct.pack("<I", v)
    if n == "uint8":
        return struct.pack("<Q", rnd.choice([0, 1, 5]))
    if n == "float8":
        return struct.pack(">d", rnd.random())
    if n in ("long1", "string1", "bytes1", "unicodestring1"):
        k = rnd.randrange(0, 4)
        return bytes([k]) + bytes(rnd.choice(b"ab\\'0") for _ in range(k))
    if n in ("long4", "string4", "bytes4", "unicodestring4"):
        k = rnd.randrange(0, 4)
        pre = struct.pack("<I", k if rnd.random() < 0.9 else 0x80000000)
        return pre + bytes(rnd.choice(b"ab\\'0") for _ in range(k))
    if n in ("bytes8", "unicodestring8", "bytearray8"):
        k = rnd.randrange(0, 4)
        return struct.pack("<Q", k) + bytes(rnd.choice(b"ab0") for _ in range(k))
    if n == "stringnl":
        body = bytes(rnd.choice(b"ab\\'\"nx41 ") for _ in range(rnd.randrange(0, 5)))
        q = rnd.choice([b"'", b'"', b""])
        q2 = q if rnd.random() < 0.8 else rnd.choice([b"'", b'"', b""])
        return q + body + q2 + b"\n"
    if n == "stringnl_noescape":
        return bytes(rnd.choice(b"ab.\\x4") for _ in range(rnd.randrange(0, 4))) + b"\n"
    if n == "stringnl_noescape_pair":
        return (bytes(rnd.choice(b"ab.") for _ in range(rnd.randrange(0, 3))) + b"\n" +
                bytes(rnd.choice(b"ab.") for _ in range(rnd.randrange(0, 3))) + b"\n")
    if n == "unicodestringnl":
        return bytes(rnd.choice(b"ab\\u0041U ") for _ in range(rnd.randrange(0, 6))) + b"\n"
    if n == "decimalnl_short":
        v = rnd.choice([b"0", b"1", b"00", b"01", b"-5", b"12", b"x", b"", b"1.5"])
        if o.name in ("GET", "PUT"):
            v = rnd.choice([str(memo_n).encode(), str(max(memo_n - 1, 0)).encode(), b"0", str(memo_n + 1).encode(), b"-1", b"x"])
        return v + b"\n"
    if n == "decimalnl_long":
        return rnd.choice([b"0L", b"12L", b"-7L", b"5", b"L", b"xL"]) + b"\n"
    if n == "floatnl":
        return rnd.choice([b"1.5", b"0", b"-2e10", b"nan", b"inf", b"abc", b"", b"1e"]) + b"\n"
    raise KeyError(n)


def verdicts(stream):
    lex = True
    try:
        list(pickletools.genops(stream))
    except Exception:
        lex = False
    dis = True
    try:
        pickletools.dis(stream, out=io.StringIO())
    except Exception:
        dis = False
    return lex, dis


def dis_error(stream):
    try:
        pickletools.dis(stream, out=io.StringIO())
        return None
    except Exception as e:
        return str(e) or type(e).__name__


def guided(rnd, body_ops):
    """stream whose prefix pickletools accepts step by step (pickletools itself is the guide), then STOP"""
    s = b""
    memo_n = 0
    for _ in range(rnd.randrange(1, 10)):
        for _try in range(6):
            o = rnd.choice(body_ops)
            cand = s + o.code.encode("latin1") + arg_bytes(o, rnd, memo_n)
            e = dis_error(cand + b".")
            if e is None or "stack not empty after STOP" in e or "tries to pop 1 items from stack with only 0" in e:
                s = cand
                if o.name in ("PUT", "BINPUT", "LONG_BINPUT", "MEMOIZE"):
                    memo_n += 1
                break
    for _ in range(6):
        e = dis_error(s + b".")
        if e is None or "stack not empty" not in e or rnd.random() < 0.2:
            break
        s += b"0"
    return s + b"."


def main(path, n, seed):
    rnd = random.Random(seed)
    body_ops = [o for o in OPS if o.name not in ("STOP", "FRAME")]
    with open(path, "w") as fh:
        for _ in range(n // 2):
            s = guided(rnd, body_ops)
            lex, dis = verdicts(s)
            fh.write("x%s %d %d\n" % (s.hex(), int(lex), int(dis)))
        for _ in range(n - n // 2):
            k = rnd.randrange(0, 9)
            s = b""
            memo_n = 0
            for _j in range(k):
                o = rnd.choice(body_ops)
                s += o.code.encode("latin1") + arg_bytes(o, rnd, memo_n)
                if o.name in ("PUT", "BINPUT", "LONG_BINPUT", "MEMOIZE") and rnd.random() < 0.8:
                    memo_n += 1     # only a guess of the memo size: keeps interesting indices likely
            s += b"."
            lex, dis = verdicts(s)
            fh.write("x%s %d %d\n" % (s.hex(), int(lex), int(dis)))


if __name__ == "__main__":
    main(sys.argv[1], int(sys.argv[2]) if len(sys.argv) > 2 else 4000, int(sys.argv[3]) if len(sys.argv) > 3 else 1)
